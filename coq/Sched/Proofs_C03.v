(* C03 - proofs of the shutdown theorems stated in Props/C03.v *)
From stdpp Require Import gmap.
From Coq Require Import NArith Lia.
From GoRes Require Import Sched.Spec Sched.Shut_Base Sched.Shut_Safe Sched.Shut_Heap Sched.Shut_Bound.

(* ---------- safety ---------- *)
Lemma drained_pf : forall tr s,
  run init tr = Some s -> (shut s = SWaited \/ shut s = SCleared \/ svc s = Stopped) -> all_exited s = true.
Proof.
  intros tr s HR H. apply inv_reach in HR. destruct HR as [_ HI].
  destruct H as [E|[E|E]].
  - rewrite E in HI. tauto.
  - rewrite E in HI. tauto.
  - rewrite E in HI. destruct (shut s); try tauto; intuition congruence.
Qed.

Lemma no_start_when_stopped_pf : forall tr s k c,
  run init tr = Some s -> svc s = Stopped -> step s (LStart k c) = None.
Proof.
  intros tr s k c HR E. assert (X : all_exited s = true) by (eapply drained_pf; eauto).
  destruct (step s (LStart k c)) as [s'|] eqn:HS; [|done].
  apply step_start_inv in HS as (w & i & Ek & _).
  eapply not_all_exited in Ek; [congruence|done].
Qed.

Lemma closed_once_pf : forall tr s,
  run init tr = Some s ->
  (closes s <= 1)%nat /\ ((shut s = SConnClosed \/ shut s = SWaited \/ shut s = SCleared) -> closes s = 1%nat).
Proof.
  intros tr s HR. apply inv_reach in HR. destruct HR as [_ HI].
  destruct (shut s), (svc s); intuition (try congruence); try lia.
Qed.

Lemma close_sticky_pf : forall tr s,
  run init tr = Some s -> shut s <> SIdle -> shut s <> SCas -> wq s = None.
Proof.
  intros tr s HR. apply inv_reach in HR. destruct HR as [_ HI].
  destruct (shut s); intuition congruence.
Qed.

Lemma never_panics_pf : forall tr s, run init tr = Some s -> panicked s = false.
Proof. intros tr s HR. apply inv_reach in HR. apply HR. Qed.

Lemma close_nil_enabled_pf : forall tr s, run init tr = Some s -> shut s = SCas -> step s LCloseNil <> None.
Proof. intros tr s _ E. unfold step, step_gen. rewrite E. done. Qed.

(* ---------- progress and bound ---------- *)
Lemma shutdown_progress_pf : forall tr s,
  run init tr = Some s -> svc s = Stopping -> exists l, sys_label s l = true /\ step s l <> None.
Proof. intros tr s HR Ev. apply progress_pinv; [eapply pinv_reach; eauto|done]. Qed.

(* once close() has run (shut <> SCas) at most [mu s] system steps fit before LStopped *)
Lemma shutdown_bounded_pf : forall tr s,
  run init tr = Some s -> svc s = Stopping -> shut s <> SCas ->
  exists B, forall tr' s', run s tr' = Some s' -> ~ In LStopped tr' -> (count_sys s tr' <= B)%nat.
Proof.
  intros tr s HR Ev Ns. exists (mu s). intros tr' s' HR' NI.
  eapply bounded_gen; eauto. eapply close_sticky_pf; eauto.
  apply inv_reach in HR. by apply inv_stopping.
Qed.

(* before close() (shut = SCas) there is no bound: a spurious wake-up (not a system step) followed by
   the worker's critical section (a system step, back to Wait: the queue is empty, not nil) repeats *)
Definition cex_tr : list label :=
  [LServeCAS true; LServeInit 1; LServeStarted; LSect 0 false RWait; LShutCAS true].
Definition cex_state : st := default init (run init cex_tr).
Definition cex_mid : st := default init (step cex_state (LWake 0)).
Fixpoint cex_loop (n : nat) : list label :=
  match n with 0 => [] | S n => LWake 0 :: LSect 0 false RWait :: cex_loop n end.

Lemma cex_loop_run n : run cex_state (cex_loop n) = Some cex_state /\ count_sys cex_state (cex_loop n) = n.
Proof.
  assert (H1 : step cex_state (LWake 0) = Some cex_mid) by (by vm_compute).
  assert (H2 : step cex_mid (LSect 0 false RWait) = Some cex_state) by (by vm_compute).
  assert (H3 : sys_label cex_state (LWake 0) = false) by (by vm_compute).
  induction n as [|n [IH1 IH2]]; [done|].
  cbn [cex_loop count_sys]. unfold run in *. cbn [run_gen]. fold step. rewrite H1, H2, H3.
  cbn [sys_label]. split; [done|]. rewrite IH2. done.
Qed.
Lemma cex_loop_no_stopped n : ~ In LStopped (cex_loop n).
Proof. induction n as [|n IH]; cbn; [tauto|]. intros [?|[?|?]]; [done|done|tauto]. Qed.

Lemma shutdown_bounded_cex_pf : exists tr s,
  run init tr = Some s /\ svc s = Stopping /\
  forall B, exists tr' s', run s tr' = Some s' /\ ~ In LStopped tr' /\ (B < count_sys s tr')%nat.
Proof.
  exists cex_tr, cex_state. split; [by vm_compute|]. split; [by vm_compute|].
  intros B. exists (cex_loop (S B)), cex_state. destruct (cex_loop_run (S B)) as [H1 H2].
  split; [done|]. split; [apply cex_loop_no_stopped|]. rewrite H2. lia.
Qed.

(* ---------- restart ---------- *)
Lemma restart_pf : forall tr s n,
  run init tr = Some s -> svc s = Stopped -> (0 < n)%nat ->
  exists s', run s [LServeCAS true; LServeInit n; LServeStarted] = Some s' /\ svc s' = Started /\
             workers s' = replicate n WStart /\ wq s' = Some [] /\ closes s' = 0%nat.
Proof.
  intros tr s n Hr E Hn. destruct n as [|n]; [lia|].
  assert (Hw : wq s = None).
  { pose proof (inv_reach _ _ Hr) as [_ HI]. rewrite E in HI.
    destruct (shut s); try (destruct HI; congruence); destruct HI as [? _]; try congruence; done. }
  destruct s as [sv q rw ws nw wk pr pb ncc cl sh tk pn]. simpl in *. subst sv q.
  unfold run, run_gen, step_gen. cbn.
  eexists. split; [reflexivity|]. cbn. auto.
Qed.

(* ---------- the code before the fixes ---------- *)
Definition hang_tr : list label :=
  [LServeCAS true; LServeInit 1; LServeStarted; LSect 0 false RWait; LCheck 1 5 100 true; LShutCAS true;
   LCloseNil; LBroadcast; LConnClose; LEnq 1 ENew; LSignal 1; LWake 0; LSect 0 false (RTake 0);
   LStart 0 100; LEnd 0 100; LSect 0 true RWait].
Definition hang_state : st := default init (run_gen false init hang_tr).

(* the queue revived after close() keeps the only worker alive: wg.Wait never returns *)
Definition hang_inv (s : st) : Prop :=
  svc s = Stopping /\ shut s = SConnClosed /\ wq s <> None /\ exists p, workers s = [p] /\ p <> WExited.

Lemma hang_head s k s1 r : hang_inv s -> head_eval s k = Some (s1, r) -> hang_inv s1.
Proof.
  intros (E1 & E2 & E3 & p & E4 & E5) H. unfold head_eval in H.
  destruct (wq s) as [[|w q]|] eqn:Eq; [| |done].
  - simplify_eq. unfold hang_inv; cbn. rewrite Eq, E4. repeat split; auto.
    destruct k; cbn; eauto.
  - destruct (works s !! w) as [W|]; [|done]. destruct (w_queue W !! 0%nat) as [c|]; [|done]. simplify_eq.
    unfold hang_inv; cbn. rewrite E4. repeat split; auto. destruct k; cbn; eauto.
Qed.

Lemma hang_setq s rw ws : hang_inv s -> hang_inv (set_q s (wq s) rw ws).
Proof. unfold hang_inv. cbn. auto. Qed.

Lemma hang_step s l s' : hang_inv s -> step_gen false s l = Some s' -> hang_inv s'.
Proof.
  intros HI HS. pose proof HI as (E1 & E2 & E3 & p0 & E4 & E5).
  destruct l as [p g c ok|p r|p|k rt r|k|k c|k c|ok| | | | | | |ok|n| |p ok|p sent]; cbn in HS.
  - destruct (prods s !! p); [done|]. destruct (bool_eq ok (started s)); [|done].
    destruct ok; simplify_eq; exact HI.
  - destruct (prods s !! p) as [[g c|]|]; try done.
    destruct (wq s) as [q|] eqn:Eq; [|done].
    destruct (if N.eqb g 0 then None else rwork s !! g) as [w|].
    + destruct (works s !! w) as [W|]; [|done]. destruct (enq_eq r EAppend); [|done]. simplify_eq.
      unfold hang_inv; cbn. repeat split; eauto; done.
    + destruct (enq_eq r ENew); [|done]. simplify_eq. unfold hang_inv; cbn. repeat split; eauto; done.
  - destruct (prods s !! p) as [[|]|]; try done.
    match type of HS with Some (if ?b then _ else _) = _ => destruct b end; simplify_eq; exact HI.
  - rewrite E4 in HS. destruct k as [|k]; [|done]. cbn in HS.
    destruct p0 as [| | |w i c|w i c|w i|]; try done.
    + destruct rt; [done|]. destruct (head_eval s 0) as [[s1 r1]|] eqn:Eh; [|done].
      destruct (res_eq r r1); [|done]. simplify_eq. eapply hang_head; eauto.
    + destruct rt; [done|]. destruct (head_eval s 0) as [[s1 r1]|] eqn:Eh; [|done].
      destruct (res_eq r r1); [|done]. simplify_eq. eapply hang_head; eauto.
    + destruct (works s !! w) as [W|]; [|done]. destruct (w_queue W !! i) as [c|].
      * destruct (negb rt && res_eq r RNext); [|done]. simplify_eq.
        unfold hang_inv; cbn. rewrite E4. cbn. eauto 10.
      * destruct rt; [|done].
        match type of HS with match ?h with _ => _ end = _ => destruct h as [[s1 r1]|] eqn:Eh; [|done] end.
        destruct (res_eq r r1); [|done]. simplify_eq.
        eapply hang_head; [|exact Eh]. by apply hang_setq.
  - rewrite E4 in HS. destruct k as [|k]; [|done]. cbn in HS. destruct p0; try done. simplify_eq.
    unfold hang_inv; cbn. rewrite E4. cbn. eauto 10.
  - rewrite E4 in HS. destruct k as [|k]; [|done]. cbn in HS. destruct p0 as [| | |w i c'| | |]; try done.
    destruct (N.eqb c c'); [|done]. simplify_eq. unfold hang_inv; cbn. rewrite E4. cbn. eauto 10.
  - rewrite E4 in HS. destruct k as [|k]; [|done]. cbn in HS. destruct p0 as [| | | |w i c'| |]; try done.
    destruct (N.eqb c c'); [|done]. simplify_eq. unfold hang_inv; cbn. rewrite E4. cbn. eauto 10.
  - unfold started in HS. rewrite E1 in HS.
    rewrite (bool_decide_eq_false_2 (Stopping = Started)) in HS by done.
    destruct ok; cbn in HS; [done|]. by simplify_eq.
  - rewrite E2 in HS. done.
  - rewrite E2 in HS. done.
  - rewrite E2 in HS. done.
  - rewrite E2 in HS. unfold all_exited in HS. rewrite E4 in HS. cbn in HS. destruct p0; done.
  - rewrite E2 in HS. done.
  - rewrite E2 in HS. done.
  - rewrite E1 in HS. rewrite (bool_decide_eq_false_2 (Stopping = Stopped)) in HS by done.
    destruct ok; cbn in HS; [done|]. by simplify_eq.
  - rewrite E1 in HS. done.
  - rewrite E1 in HS. done.
  - destruct (bool_decide (p ∈ pubs s)); [done|]. destruct (bool_eq ok (started s)); [|done].
    destruct ok; simplify_eq; exact HI.
  - destruct (bool_decide (p ∈ pubs s)); [|done]. destruct (bool_eq sent (nc s)); [|done]. simplify_eq.
    exact HI.
Qed.

Lemma hang_run tr : forall s s', hang_inv s -> run_gen false s tr = Some s' -> hang_inv s'.
Proof.
  induction tr as [|l tr IH]; intros s s' HI HR; cbn in HR.
  - by simplify_eq.
  - destruct (step_gen false s l) as [s1|] eqn:E; [|done].
    eapply IH; [|exact HR]. eapply hang_step; eauto.
Qed.

Lemma shutdown_hang_v0_pf : exists tr s,
  run_gen false init tr = Some s /\ svc s = Stopping /\
  forall tr' s', run_gen false s tr' = Some s' -> svc s' = Stopping.
Proof.
  exists hang_tr, hang_state.
  assert (HI : hang_inv hang_state).
  { unfold hang_inv. split; [by vm_compute|]. split; [by vm_compute|]. split; [by vm_compute|].
    exists WWaiting. split; [by vm_compute|done]. }
  split; [by vm_compute|]. split; [apply HI|].
  intros tr' s' HR. eapply hang_run in HR; [|exact HI]. apply HR.
Qed.

Definition panic_tr : list label :=
  [LServeCAS true; LServeInit 1; LServeStarted; LPubCheck 7 true; LShutCAS true; LCloseNil; LBroadcast;
   LConnClose; LSect 0 false RExit; LWgDone; LClearConn; LPubUse 7 false].
Lemma publish_panic_v0_pf : exists tr s, run_gen false init tr = Some s /\ panicked s = true.
Proof.
  exists panic_tr, (default init (run_gen false init panic_tr)). split; by vm_compute.
Qed.

Definition cycle_tr : list label :=
  [LServeCAS true; LServeInit 1; LServeStarted; LShutCAS true; LCloseNil; LBroadcast; LConnClose;
   LSect 0 false RExit; LWgDone; LClearConn; LStopped].
Lemma three_cycles_pf : exists tr s,
  run init tr = Some s /\ svc s = Stopped /\ length (filter (fun l => l = LStopped) tr) = 3%nat.
Proof.
  exists (cycle_tr ++ cycle_tr ++ cycle_tr), (default init (run init (cycle_tr ++ cycle_tr ++ cycle_tr))).
  split; [by vm_compute|]. split; by vm_compute.
Qed.
