(* Shared safety invariant of the scheduler LTS (Sched/Model.v), preserved by every label of
   [step] (the fixed code).  Used by Proofs_C01.v and Proofs_C02.v. *)
From stdpp Require Import gmap.
From Coq Require Import NArith Lia.
From GoRes Require Import Sched.Model.

(* ---------- definitions (on the components the invariant talks about) ---------- *)
Definition pc_ok (ws : gmap N work) (p : wpc) : Prop :=
  match p with
  | WPre w i c | WRun w i c => exists W, ws !! w = Some W /\ w_queue W !! i = Some c
  | WPost w i => exists W, ws !! w = Some W /\ i <= length (w_queue W)
  | _ => True
  end.
Definition owns (wk : list wpc) (k : nat) (w : N) : Prop :=
  exists p, wk !! k = Some p /\ owned p = Some w.
Definition livec (q : list N) (wk : list wpc) (w : N) : Prop :=
  w ∈ q \/ exists k, owns wk k w.

Record InvC (oq : option (list N)) (rw : gmap N N) (ws : gmap N work) (nx : N) (wk : list wpc) : Prop := {
  i_lt : forall w W, ws !! w = Some W -> (w < nx)%N;
  i_qworks : forall w, w ∈ default [] oq -> is_Some (ws !! w);
  i_pc : forall k p, wk !! k = Some p -> pc_ok ws p;
  i_rw : forall g w, rw !! g = Some w -> g <> 0%N /\ exists W, ws !! w = Some W /\ w_gid W = g;
  i_qnd : NoDup (default [] oq);
  i_oq : forall k w, owns wk k w -> w ∉ default [] oq;
  i_oo : forall k1 k2 w, owns wk k1 w -> owns wk k2 w -> k1 = k2;
  i_reg : forall w W, livec (default [] oq) wk w -> ws !! w = Some W -> w_gid W <> 0%N ->
                      rw !! w_gid W = Some w;
  i_rl : forall g w, oq <> None -> rw !! g = Some w -> livec (default [] oq) wk w
}.

Definition Inv (s : st) : Prop := InvC (wq s) (rwork s) (works s) (nextw s) (workers s).

(* ---------- small facts ---------- *)
Lemma owned_pc_ok ws p w : pc_ok ws p -> owned p = Some w -> is_Some (ws !! w).
Proof. destruct p; simpl; intros Hp Ho; inversion Ho; subst; destruct Hp as (W & HW & _); eauto. Qed.

Lemma owns_works oq rw ws nx wk k w : InvC oq rw ws nx wk -> owns wk k w -> is_Some (ws !! w).
Proof. intros HI (p & Hk & Ho). eapply owned_pc_ok; [eapply (i_pc _ _ _ _ _ HI); eauto|done]. Qed.

Lemma owns_insert_same wk k p p' j w :
  wk !! k = Some p -> owned p' = owned p -> owns (<[k:=p']> wk) j w <-> owns wk j w.
Proof.
  intros Hk Ho. assert (Hlt : k < length wk) by eauto using lookup_lt_Some.
  unfold owns. destruct (decide (j = k)) as [->|Hne].
  - rewrite list_lookup_insert by done. split.
    + intros (q & Hq & Hq'). inversion Hq; subst. exists p. split; [done|congruence].
    + intros (q & Hq & Hq'). exists p'. split; [done|]. congruence.
  - rewrite list_lookup_insert_ne by done. done.
Qed.

Lemma owns_insert wk k p' j w :
  k < length wk ->
  owns (<[k:=p']> wk) j w <-> (j = k /\ owned p' = Some w) \/ (j <> k /\ owns wk j w).
Proof.
  intros Hlt. unfold owns. destruct (decide (j = k)) as [->|Hne].
  - rewrite list_lookup_insert by done. split.
    + intros (q & Hq & Hq'). inversion Hq; subst. left; done.
    + intros [[_ Ho]|[Hne _]]; [eauto|done].
  - rewrite list_lookup_insert_ne by done. split; [right; done|]. intros [[? _]|[_ ?]]; done.
Qed.

Lemma pc_ok_insert_ne ws p w W : pc_ok ws p -> owned p <> Some w -> pc_ok (<[w:=W]> ws) p.
Proof.
  destruct p; simpl; try done; intros (W0 & HW & Hi) Hne; exists W0;
    (split; [|done]); rewrite lookup_insert_ne; [done|congruence|done|congruence|done|congruence].
Qed.

Lemma pc_ok_delete ws p w : pc_ok ws p -> owned p <> Some w -> pc_ok (delete w ws) p.
Proof.
  destruct p; simpl; try done; intros (W0 & HW & Hi) Hne; exists W0;
    (split; [|done]); rewrite lookup_delete_ne; [done|congruence|done|congruence|done|congruence].
Qed.

Lemma pc_ok_append ws p w W c :
  ws !! w = Some W -> pc_ok ws p -> pc_ok (<[w := Work (w_gid W) (w_queue W ++ [c])]> ws) p.
Proof.
  intros HW. destruct p as [| | |w' i c'|w' i c'|w' i|]; simpl; try done; intros (W0 & HW0 & Hi).
  - destruct (decide (w' = w)) as [->|Hne].
    + rewrite lookup_insert. eexists; split; [done|]. simpl.
      assert (W0 = W) by congruence. subst. by apply lookup_app_l_Some.
    + rewrite lookup_insert_ne by done. eauto.
  - destruct (decide (w' = w)) as [->|Hne].
    + rewrite lookup_insert. eexists; split; [done|]. simpl.
      assert (W0 = W) by congruence. subst. by apply lookup_app_l_Some.
    + rewrite lookup_insert_ne by done. eauto.
  - destruct (decide (w' = w)) as [->|Hne].
    + rewrite lookup_insert. eexists; split; [done|]. simpl.
      assert (W0 = W) by congruence. subst. rewrite app_length. lia.
    + rewrite lookup_insert_ne by done. eauto.
Qed.

(* ---------- preservation, one lemma per kind of effect ---------- *)
Lemma InvC_init nx n : InvC (Some []) ∅ ∅ nx (replicate n WStart).
Proof.
  assert (Hno : forall k w, ~ owns (replicate n WStart) k w).
  { intros k w (p & Hp & Ho). apply lookup_replicate in Hp as [-> _]. done. }
  split; simpl.
  - intros w W HW. by rewrite lookup_empty in HW.
  - intros w Hw. by apply elem_of_nil in Hw.
  - intros k p Hp. apply lookup_replicate in Hp as [-> _]. done.
  - intros g w Hw. by rewrite lookup_empty in Hw.
  - constructor.
  - intros k w Ho. by apply Hno in Ho.
  - intros k1 k2 w Ho. by apply Hno in Ho.
  - intros w W _ HW. by rewrite lookup_empty in HW.
  - intros g w _ Hw. by rewrite lookup_empty in Hw.
Qed.

Lemma InvC_nil nx : InvC None ∅ ∅ nx [].
Proof.
  assert (Hno : forall k w, ~ owns [] k w).
  { intros k w (p & Hp & Ho). by rewrite lookup_nil in Hp. }
  split; simpl.
  - intros w W HW. by rewrite lookup_empty in HW.
  - intros w Hw. by apply elem_of_nil in Hw.
  - intros k p Hp. by rewrite lookup_nil in Hp.
  - intros g w Hw. by rewrite lookup_empty in Hw.
  - constructor.
  - intros k w Ho. by apply Hno in Ho.
  - intros k1 k2 w Ho. by apply Hno in Ho.
  - intros w W _ HW. by rewrite lookup_empty in HW.
  - intros g w Hn. done.
Qed.

Lemma InvC_close oq rw ws nx wk : InvC oq rw ws nx wk -> InvC None rw ws nx wk.
Proof.
  intros [H1 H2 H3 H4 H5 H6 H7 H8 H9]. split; simpl; try done.
  - intros w Hw. by apply elem_of_nil in Hw.
  - constructor.
  - intros k w _ Hw. by apply elem_of_nil in Hw.
  - intros w W [Hw|Ho] HW Hg; [by apply elem_of_nil in Hw|].
    apply H8; [right; done|done..].
Qed.

Lemma InvC_setw oq rw ws nx wk k p p' :
  InvC oq rw ws nx wk -> wk !! k = Some p -> owned p' = owned p -> pc_ok ws p' ->
  InvC oq rw ws nx (<[k:=p']> wk).
Proof.
  intros [H1 H2 H3 H4 H5 H6 H7 H8 H9] Hk Ho Hpc.
  assert (Hlt : k < length wk) by eauto using lookup_lt_Some.
  assert (Hiff : forall j w, owns (<[k:=p']> wk) j w <-> owns wk j w)
    by (intros; eapply owns_insert_same; eauto).
  assert (Hl : forall q w, livec q (<[k:=p']> wk) w <-> livec q wk w).
  { intros q w. unfold livec. by setoid_rewrite Hiff. }
  split; try done.
  - intros j q. destruct (decide (j = k)) as [->|Hne].
    + rewrite list_lookup_insert by done. intros [= <-]. done.
    + rewrite list_lookup_insert_ne by done. apply H3.
  - intros j w Hj. apply Hiff in Hj. eauto.
  - intros k1 k2 w Ha Hb. apply Hiff in Ha, Hb. eauto.
  - intros w W Hw. apply Hl in Hw. eauto.
  - intros g w Hn Hg. apply Hl. eauto.
Qed.

Lemma InvC_take w r rw ws nx wk k p W c :
  InvC (Some (w :: r)) rw ws nx wk -> wk !! k = Some p -> owned p = None ->
  ws !! w = Some W -> w_queue W !! 0%nat = Some c ->
  InvC (Some r) rw ws nx (<[k := WPre w 0 c]> wk).
Proof.
  intros [H1 H2 H3 H4 H5 H6 H7 H8 H9] Hk Ho HW Hc. simpl in *.
  assert (Hlt : k < length wk) by eauto using lookup_lt_Some.
  apply NoDup_cons in H5 as [Hwr Hnd].
  assert (Hiff : forall j w', owns (<[k:=WPre w 0 c]> wk) j w' <->
                              (j = k /\ w' = w) \/ (j <> k /\ owns wk j w')).
  { intros j w'. rewrite owns_insert by done. simpl. split.
    - intros [[-> [= ->]]|?]; [left|right]; done.
    - intros [[-> ->]|?]; [left|right]; done. }
  assert (Hnk : forall w', ~ owns wk k w').
  { intros w' (q & Hq & Hq'). congruence. }
  assert (Hl : forall w', livec r (<[k:=WPre w 0 c]> wk) w' <-> livec (w :: r) wk w').
  { intros w'. unfold livec. split.
    - intros [Hin|[j Hj]]; [left; by apply elem_of_cons; right|].
      apply Hiff in Hj as [[-> ->]|[Hne Hj]]; [left; by apply elem_of_cons; left|right; eauto].
    - intros [Hin|[j Hj]].
      + apply elem_of_cons in Hin as [->|Hin]; [|left; done].
        right. exists k. apply Hiff. left; done.
      + right. exists j. apply Hiff. right. split; [|done]. intros ->. by apply Hnk in Hj. }
  split; simpl; try done.
  - intros w' Hw'. apply H2. by apply elem_of_cons; right.
  - intros j q. destruct (decide (j = k)) as [->|Hne].
    + rewrite list_lookup_insert by done. intros [= <-]. simpl. eauto.
    + rewrite list_lookup_insert_ne by done. apply H3.
  - intros j w' Hj. apply Hiff in Hj as [[-> ->]|[Hne Hj]]; [done|].
    intros Hin. eapply H6; [done|]. by apply elem_of_cons; right.
  - intros k1 k2 w' Ha Hb.
    apply Hiff in Ha as [[E1 E2]|[Hne1 Ha]], Hb as [[E3 E4]|[Hne2 Hb]]; subst; try done.
    + exfalso. eapply H6; [exact Hb|]. by apply elem_of_cons; left.
    + exfalso. eapply H6; [exact Ha|]. by apply elem_of_cons; left.
    + eauto.
  - intros w' W' Hw'. apply Hl in Hw'. eauto.
  - intros g w' _ Hg. apply Hl. apply (H9 g); done.
Qed.

Lemma InvC_retire oq rw ws nx wk k w i W :
  InvC oq rw ws nx wk -> wk !! k = Some (WPost w i) -> ws !! w = Some W ->
  InvC oq (if N.eqb (w_gid W) 0 then rw else delete (w_gid W) rw) (delete w ws) nx (<[k := WStart]> wk).
Proof.
  intros [H1 H2 H3 H4 H5 H6 H7 H8 H9] Hk HW.
  assert (Hlt : k < length wk) by eauto using lookup_lt_Some.
  assert (Hkw : owns wk k w) by (exists (WPost w i); done).
  assert (Hiff : forall j w', owns (<[k:=WStart]> wk) j w' <-> (j <> k /\ owns wk j w')).
  { intros j w'. rewrite owns_insert by done. simpl. split.
    - intros [[_ ?]|?]; done.
    - intros ?; right; done. }
  assert (Hl : forall w', livec (default [] oq) (<[k:=WStart]> wk) w' <->
                          (livec (default [] oq) wk w' /\ w' <> w)).
  { intros w'. unfold livec. split.
    - intros [Hin|[j Hj]].
      + split; [left; done|]. intros ->. by eapply H6.
      + apply Hiff in Hj as [Hne Hj]. split; [right; eauto|]. intros ->. apply Hne. eauto.
    - intros [[Hin|[j Hj]] Hne]; [left; done|]. right. exists j. apply Hiff. split; [|done].
      intros ->. apply Hne. destruct Hj as (q & Hq & Hq'). rewrite Hk in Hq. inversion Hq; subst.
      simpl in Hq'. congruence. }
  assert (Hrw : forall g w', (if N.eqb (w_gid W) 0 then rw else delete (w_gid W) rw) !! g = Some w' ->
                             rw !! g = Some w' /\ w' <> w).
  { intros g w' Hg.
    assert (Hg' : rw !! g = Some w' /\ (w_gid W = 0%N \/ g <> w_gid W)).
    { destruct (N.eqb_spec (w_gid W) 0) as [E|E]; [split; [done|left; done]|].
      apply lookup_delete_Some in Hg as [? ?]. split; [done|right; done]. }
    destruct Hg' as [Hg' Hd]. split; [done|]. intros ->.
    destruct (H4 _ _ Hg') as (Hg0 & W' & HW' & HgW). rewrite HW in HW'. inversion HW'; subst.
    destruct Hd as [Hd|Hd]; done. }
  split; try done.
  - intros w' W' HW'. apply lookup_delete_Some in HW' as [_ HW']. eauto.
  - intros w' Hw'. rewrite lookup_delete_ne; [eauto|]. intros ->. by eapply H6.
  - intros j q. destruct (decide (j = k)) as [->|Hne].
    + rewrite list_lookup_insert by done. intros [= <-]. done.
    + rewrite list_lookup_insert_ne by done. intros Hj. apply pc_ok_delete; [eauto|].
      intros Hq. apply Hne. apply (H7 j k w); [exists q; done|done].
  - intros g w' Hg. apply Hrw in Hg as [Hg Hne]. destruct (H4 _ _ Hg) as (Hg0 & W' & HW' & HgW).
    split; [done|]. exists W'. rewrite lookup_delete_ne by done. done.
  - intros j w' Hj. apply Hiff in Hj as [_ Hj]. eauto.
  - intros k1 k2 w' Ha Hb. apply Hiff in Ha as [_ Ha], Hb as [_ Hb]. eauto.
  - intros w' W' Hw' HW' Hg. apply Hl in Hw' as [Hw' Hne].
    apply lookup_delete_Some in HW' as [_ HW'].
    pose proof (H8 _ _ Hw' HW' Hg) as Hr.
    destruct (N.eqb_spec (w_gid W) 0) as [E|E]; [done|].
    rewrite lookup_delete_ne; [done|]. intros Heq.
    assert (Hr2 : rw !! w_gid W = Some w) by (apply H8; [right; eauto|done|done]).
    rewrite Heq in Hr2. congruence.
  - intros g w' Hn Hg. apply Hrw in Hg as [Hg Hne]. apply Hl. split; [eauto|done].
Qed.

Lemma InvC_new q rw ws nx wk g c :
  InvC (Some q) rw ws nx wk -> (g = 0%N \/ rw !! g = None) ->
  InvC (Some (q ++ [nx])) (if N.eqb g 0 then rw else <[g := nx]> rw)
       (<[nx := Work g [c]]> ws) (N.succ nx) wk.
Proof.
  intros HI Hg. pose proof HI as [H1 H2 H3 H4 H5 H6 H7 H8 H9]. simpl in *.
  assert (Hfresh : ws !! nx = None).
  { destruct (ws !! nx) eqn:E; [|done]. apply H1 in E. lia. }
  assert (Hnq : nx ∉ q).
  { intros Hin. apply H2 in Hin as [? ?]. congruence. }
  assert (Hno : forall k, ~ owns wk k nx).
  { intros k Hk. eapply owns_works in Hk as [? ?]; [|exact HI]. congruence. }
  assert (Hl : forall w', livec (q ++ [nx]) wk w' <-> (w' = nx \/ livec q wk w')).
  { intros w'. unfold livec. rewrite elem_of_app, elem_of_list_singleton. tauto. }
  assert (Hrw : forall g' w', (if N.eqb g 0 then rw else <[g := nx]> rw) !! g' = Some w' ->
                              (g <> 0%N /\ g' = g /\ w' = nx) \/ rw !! g' = Some w').
  { intros g' w' Hg'. destruct (N.eqb_spec g 0) as [E|E]; [right; done|].
    apply lookup_insert_Some in Hg' as [[-> <-]|[_ ?]]; [left|right]; done. }
  split; simpl.
  - intros w W HW. apply lookup_insert_Some in HW as [[<- _]|[_ HW]]; [lia|]. apply H1 in HW. lia.
  - intros w Hw. apply lookup_insert_is_Some. destruct (decide (nx = w)); [left; done|right].
    split; [done|]. apply elem_of_app in Hw as [Hw|Hw]; [eauto|].
    apply elem_of_list_singleton in Hw. congruence.
  - intros k p Hp. apply pc_ok_insert_ne; [eauto|]. intros Ho. apply (Hno k). exists p. done.
  - intros g' w' Hg'. apply Hrw in Hg' as [(Hg0 & -> & ->)|Hg'].
    + split; [done|]. exists (Work g [c]). rewrite lookup_insert. done.
    + destruct (H4 _ _ Hg') as (Hg0 & W' & HW' & HgW). split; [done|]. exists W'.
      rewrite lookup_insert_ne; [done|]. intros <-. congruence.
  - apply NoDup_app. split; [done|]. split; [|apply NoDup_singleton].
    intros x Hx Hx'. apply elem_of_list_singleton in Hx'. subst. done.
  - intros k w Hk Hin. apply elem_of_app in Hin as [Hin|Hin]; [by eapply H6|].
    apply elem_of_list_singleton in Hin. subst. by eapply Hno.
  - done.
  - intros w W Hw HW HgW. apply Hl in Hw. destruct (decide (w = nx)) as [->|Hne].
    + rewrite lookup_insert in HW. inversion HW; subst. simpl in *.
      destruct (N.eqb_spec g 0) as [E|E]; [done|]. by rewrite lookup_insert.
    + destruct Hw as [?|Hw]; [done|]. rewrite lookup_insert_ne in HW by done.
      pose proof (H8 _ _ Hw HW HgW) as Hr.
      destruct (N.eqb_spec g 0) as [E|E]; [done|].
      rewrite lookup_insert_ne; [done|]. intros Heq. rewrite <- Heq in Hr.
      destruct Hg as [?|Hg]; [done|]. congruence.
  - intros g' w' _ Hg'. apply Hl. apply Hrw in Hg' as [(Hg0 & -> & ->)|Hg']; [left; done|].
    right. apply (H9 g'); done.
Qed.

Lemma InvC_append oq rw ws nx wk w W c :
  InvC oq rw ws nx wk -> ws !! w = Some W ->
  InvC oq rw (<[w := Work (w_gid W) (w_queue W ++ [c])]> ws) nx wk.
Proof.
  intros [H1 H2 H3 H4 H5 H6 H7 H8 H9] HW.
  assert (Hfw : forall w' W', <[w := Work (w_gid W) (w_queue W ++ [c])]> ws !! w' = Some W' ->
                              exists W0, ws !! w' = Some W0 /\ w_gid W0 = w_gid W').
  { intros w' W' H. apply lookup_insert_Some in H as [[<- <-]|[_ H]]; eauto. }
  assert (Hbw : forall w' W0, ws !! w' = Some W0 ->
            exists W', <[w := Work (w_gid W) (w_queue W ++ [c])]> ws !! w' = Some W' /\ w_gid W' = w_gid W0).
  { intros w' W0 H. destruct (decide (w' = w)) as [->|Hne].
    - rewrite lookup_insert. eexists; split; [done|]. simpl. congruence.
    - rewrite lookup_insert_ne by done. eauto. }
  split; try done.
  - intros w' W' H. apply Hfw in H as (W0 & H & _). eauto.
  - intros w' Hw'. apply H2 in Hw' as [W0 H]. apply Hbw in H as (W' & H & _). eauto.
  - intros k p Hp. apply pc_ok_append; eauto.
  - intros g w' Hg. destruct (H4 _ _ Hg) as (Hg0 & W0 & H & HgW). split; [done|].
    apply Hbw in H as (W' & H & HgW'). exists W'. split; [done|]. congruence.
  - intros w' W' Hl H Hg. apply Hfw in H as (W0 & H & HgW). rewrite <- HgW in *. eauto.
Qed.

(* ---------- the loop head ---------- *)
Lemma head_eval_Inv s k p s1 r :
  Inv s -> workers s !! k = Some p -> owned p = None -> head_eval s k = Some (s1, r) -> Inv s1.
Proof.
  unfold Inv, head_eval. intros HI Hk Ho He.
  destruct (wq s) as [[|w q]|] eqn:Eq.
  - inversion He; subst. simpl. rewrite Eq. eapply InvC_setw; eauto. done.
  - destruct (works s !! w) as [W|] eqn:EW; [|done].
    destruct (w_queue W !! 0%nat) as [c|] eqn:Ec; [|done].
    inversion He; subst. simpl. eapply InvC_take; eauto.
  - inversion He; subst. simpl. rewrite Eq. eapply InvC_setw; eauto. done.
Qed.

Lemma head_eval_reset s k : k < length (workers s) ->
  head_eval s k = head_eval (set_workers s k WStart) k.
Proof.
  intros Hlt. unfold head_eval, set_workers, set_q. simpl.
  destruct (wq s) as [[|w q]|]; simpl; rewrite ?list_insert_insert; try done.
  destruct (works s !! w) as [W|]; [|done]. destruct (w_queue W !! 0%nat); [|done].
  by rewrite list_insert_insert.
Qed.

(* ---------- every step ---------- *)
Lemma Inv_step s l s' : Inv s -> step s l = Some s' -> Inv s'.
Proof.
  intros HI Hs. unfold step, step_gen in Hs.
  destruct l as [p g c ok|p r|p|k retired r|k|k c|k c|ok| | | | | | |ok|n| |p ok|p sent].
  - (* LCheck *)
    destruct (prods s !! p); [done|]. destruct (bool_eq ok (started s)); [|done].
    inversion Hs; subst. destruct ok; done.
  - (* LEnq *)
    destruct (prods s !! p) as [[g c|]|] eqn:Ep; try done.
    destruct (wq s) as [q|] eqn:Eq.
    + destruct (N.eqb_spec g 0) as [Eg|Eg].
      * destruct (enq_eq r ENew); [|done]. inversion Hs; subst. unfold Inv in *. simpl.
        rewrite Eq in HI. pose proof (InvC_new q _ _ _ _ 0%N c HI (or_introl eq_refl)) as H.
        simpl in H. exact H.
      * destruct (rwork s !! g) as [w|] eqn:Er.
        -- destruct (works s !! w) as [W|] eqn:EW; [|done].
           destruct (enq_eq r EAppend); [|done]. inversion Hs; subst. unfold Inv in *. simpl.
           rewrite Eq in HI. apply InvC_append; done.
        -- destruct (enq_eq r ENew); [|done]. inversion Hs; subst. unfold Inv in *. simpl.
           rewrite Eq in HI. pose proof (InvC_new q _ _ _ _ g c HI (or_intror Er)) as H.
           destruct (N.eqb_spec g 0) as [?|_]; [done|]. exact H.
    + destruct (enq_eq r EClosing); [|done]. inversion Hs; subst. done.
  - (* LSignal *)
    destruct (prods s !! p) as [[|]|]; try done. inversion Hs; subst.
    destruct (tokens s <? n_waiting s)%nat; done.
  - (* LSect *)
    destruct (workers s !! k) as [pc|] eqn:Ek; [|done].
    destruct pc as [| | |w i c|w i c|w i|]; try done.
    + destruct retired; [done|]. destruct (head_eval s k) as [[s1 r1]|] eqn:Eh; [|done].
      destruct (res_eq r r1); [|done]. inversion Hs; subst. eapply head_eval_Inv; eauto; done.
    + destruct retired; [done|]. destruct (head_eval s k) as [[s1 r1]|] eqn:Eh; [|done].
      destruct (res_eq r r1); [|done]. inversion Hs; subst. eapply head_eval_Inv; eauto; done.
    + destruct (works s !! w) as [W|] eqn:EW; [|done].
      destruct (w_queue W !! i) as [c|] eqn:Ec.
      * destruct (negb retired && res_eq r RNext); [|done]. inversion Hs; subst.
        unfold Inv. simpl. eapply InvC_setw; eauto. simpl. eauto.
      * destruct retired; [|done].
        assert (Hlt : k < length (workers s)) by eauto using lookup_lt_Some.
        rewrite head_eval_reset in Hs by done.
        match type of Hs with context [head_eval ?s0 k] => destruct (head_eval s0 k) as [[s1 r1]|] eqn:Eh; [|done] end.
        destruct (res_eq r r1); [|done]. inversion Hs; subst.
        eapply head_eval_Inv; [| | |exact Eh].
        -- unfold Inv. simpl. eapply InvC_retire; eauto.
        -- simpl. apply list_lookup_insert. done.
        -- done.
  - (* LWake *)
    destruct (workers s !! k) as [[]|] eqn:Ek; try done. inversion Hs; subst.
    unfold Inv. simpl. eapply InvC_setw; eauto. done.
  - (* LStart *)
    destruct (workers s !! k) as [[| | |w i c'| | |]|] eqn:Ek; try done.
    destruct (N.eqb c c'); [|done]. inversion Hs; subst.
    unfold Inv. simpl. eapply InvC_setw; eauto.
    exact (i_pc _ _ _ _ _ HI _ _ Ek).
  - (* LEnd *)
    destruct (workers s !! k) as [[| | | |w i c'| |]|] eqn:Ek; try done.
    destruct (N.eqb c c'); [|done]. inversion Hs; subst.
    unfold Inv. simpl. eapply InvC_setw; eauto.
    destruct (i_pc _ _ _ _ _ HI _ _ Ek) as (W & HW & Hi). simpl. exists W. split; [done|].
    apply lookup_lt_Some in Hi. lia.
  - (* LShutCAS *)
    destruct (bool_eq ok (started s)); [|done]. inversion Hs; subst. destruct ok; done.
  - (* LCloseNil *)
    destruct (shut s); try done. inversion Hs; subst. unfold Inv. simpl. eapply InvC_close; eauto.
  - destruct (shut s); try done. inversion Hs; subst. done.
  - destruct (shut s); try done. inversion Hs; subst. done.
  - destruct (shut s); try done. destruct (all_exited s); [|done]. inversion Hs; subst. done.
  - destruct (shut s); try done. inversion Hs; subst. done.
  - destruct (shut s); try done. inversion Hs; subst. done.
  - (* LServeCAS *)
    destruct (bool_eq ok (bool_decide (svc s = Stopped))); [|done]. inversion Hs; subst. destruct ok; done.
  - (* LServeInit *)
    destruct (svc s); try done. destruct (wq s); [done|]. destruct n; [done|]. inversion Hs; subst. unfold Inv. simpl.
    apply (InvC_init (nextw s) (S n)).
  - destruct (svc s); try done. destruct (wq s); [|done]. inversion Hs; subst. done.
  - (* LPubCheck *)
    destruct (bool_decide (p ∈ pubs s)); [done|]. destruct (bool_eq ok (started s)); [|done].
    inversion Hs; subst. destruct ok; done.
  - destruct (bool_decide (p ∈ pubs s)); [|done]. destruct (bool_eq sent (nc s)); [|done].
    inversion Hs; subst. done.
Qed.

Lemma Inv_init : Inv init.
Proof. unfold Inv, init. simpl. apply InvC_nil. Qed.

Lemma Inv_run_from s tr s' : Inv s -> run s tr = Some s' -> Inv s'.
Proof.
  revert s. induction tr as [|l tr IH]; intros s HI Hr.
  - inversion Hr; subst. done.
  - unfold run in Hr. simpl in Hr. destruct (step_gen true s l) as [s1|] eqn:E; [|done].
    eapply IH; [|exact Hr]. eapply Inv_step; eauto.
Qed.

Lemma Inv_run tr s : run init tr = Some s -> Inv s.
Proof. apply Inv_run_from, Inv_init. Qed.
