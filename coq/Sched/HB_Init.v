(* C16 helper: a serve cycle is initialised (LServeInit) only when every worker of the
   previous cycle has exited, so a live worker is never replaced. *)
From stdpp Require Import gmap.
From Coq Require Import NArith Lia.
From GoRes Require Import Sched.Spec Sched.Shut_Base Sched.Shut_Safe.

(* between the CAS of Serve and its initialisation the workers are those Shutdown waited for *)
Definition jinv (s : st) : Prop := svc s = Starting -> wq s = None -> all_exited s = true.

Lemma jinv_init : jinv init.
Proof. intros H. done. Qed.

Lemma jinv_step s l s' : inv s -> jinv s -> step s l = Some s' -> jinv s'.
Proof.
  intros HI HJ HS.
  destruct l as [p g c ok|p r|p|k rt r|k|k c|k c|ok| | | | | | |ok|n| |p ok|p sent];
    try (match type of HS with step _ ?l = _ =>
           destruct (worker_step_frame s l s' I HS) as [(E1 & E2 & E3 & E4 & Hq & Hq' & _) X] end;
         intros Hsv Hwq; exfalso; rewrite E1 in Hsv; destruct (wq s) eqn:Ew;
         [by apply Hq'|rewrite (HJ Hsv Ew) in X; done]).
  - (* LCheck *) unfold step, step_gen in HS. destruct (prods s !! p); [done|].
    destruct (bool_eq ok (started s)); [|done]. destruct ok; simplify_eq; exact HJ.
  - (* LEnq *)
    apply step_enq_inv in HS as (g & c & _ & [(Eq & _ & ->)|[(q & w & W & Eq & _ & _ & _ & ->)|(q & Eq & _ & _ & ->)]]).
    + exact HJ.
    + exact HJ.
    + intros _ Hwq. done.
  - (* LSignal *) unfold step, step_gen in HS. destruct (prods s !! p) as [[|]|]; try done.
    destruct (tokens s <? n_waiting s)%nat; simplify_eq; exact HJ.
  - (* LShutCAS *) unfold step, step_gen in HS. destruct (bool_eq ok (started s)) eqn:E; [|done].
    destruct ok; simplify_eq; [|exact HJ]. intros Hsv. done.
  - (* LCloseNil *) unfold step, step_gen in HS. destruct (shut s) eqn:Es; try done. simplify_eq.
    intros Hsv _. cbn in Hsv. unfold inv in HI. rewrite Es in HI. destruct HI as [_ [HI _]]. congruence.
  - (* LBroadcast *) unfold step, step_gen in HS. destruct (shut s) eqn:Es; try done. simplify_eq. exact HJ.
  - (* LConnClose *) unfold step, step_gen in HS. destruct (shut s) eqn:Es; try done. simplify_eq. exact HJ.
  - (* LWgDone *) unfold step, step_gen in HS. destruct (shut s) eqn:Es; try done.
    destruct (all_exited s) eqn:Ex; [|done]. simplify_eq. exact HJ.
  - (* LClearConn *) unfold step, step_gen in HS. destruct (shut s) eqn:Es; try done. simplify_eq. exact HJ.
  - (* LStopped *) unfold step, step_gen in HS. destruct (shut s) eqn:Es; try done. simplify_eq.
    intros Hsv. done.
  - (* LServeCAS *) unfold step, step_gen in HS.
    destruct (bool_eq ok (bool_decide (svc s = Stopped))) eqn:E; [|done].
    apply bool_eq_true in E. destruct ok; simplify_eq; [|exact HJ]. symmetry in E.
    apply bool_decide_eq_true_1 in E. intros _ _.
    unfold inv in HI. rewrite E in HI. destruct HI as [_ HI]. unfold all_exited in *. cbn.
    destruct (shut s); intuition congruence.
  - (* LServeInit *) unfold step, step_gen in HS. destruct (svc s), (wq s), n; try done. simplify_eq.
    intros _ Hwq. done.
  - (* LServeStarted *) unfold step, step_gen in HS. destruct (svc s) eqn:E; try done.
    destruct (wq s) as [q|] eqn:Eq; [|done]. simplify_eq. intros Hsv. done.
  - (* LPubCheck *) unfold step, step_gen in HS. destruct (bool_decide (p ∈ pubs s)); [done|].
    destruct (bool_eq ok (started s)); [|done]. destruct ok; simplify_eq; exact HJ.
  - (* LPubUse *) unfold step, step_gen in HS. destruct (bool_decide (p ∈ pubs s)); [|done].
    destruct (bool_eq sent (nc s)); [|done]. simplify_eq. exact HJ.
Qed.

Lemma jinv_run tr : forall s s', inv s -> jinv s -> run s tr = Some s' -> jinv s'.
Proof.
  induction tr as [|l tr IH]; intros s s' HI HJ HR; cbn in HR.
  - by simplify_eq.
  - change (step_gen true s l) with (step s l) in HR. destruct (step s l) as [s1|] eqn:E; [|done].
    eapply IH; [| |exact HR]; [eapply inv_step; eauto|eapply jinv_step; eauto].
Qed.

Lemma jinv_reach tr s : run init tr = Some s -> jinv s.
Proof. apply jinv_run; [apply inv_init|apply jinv_init]. Qed.

Lemma init_all_exited tr s n s' :
  run init tr = Some s -> step s (LServeInit n) = Some s' -> all_exited s = true.
Proof.
  intros Hr Hs. apply jinv_reach in Hr. unfold step, step_gen in Hs.
  destruct (svc s) eqn:E; try done. destruct (wq s) eqn:Eq; [done|]. by apply Hr.
Qed.
