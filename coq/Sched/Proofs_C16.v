(* C16: lockset discipline of the extracted access table, the one-mutex happens-before theorem,
   and happens-before between the callbacks of one group on traces of the scheduler LTS. *)
From stdpp Require Import gmap.
From Coq Require Import String NArith Lia.
From GoRes Require Import Sched.Model Sched.Spec Sched.Inv Sched.Proofs_C01 Sched.Lemmas_Ghost
  Sched.Lemmas_AMO Sched.Shut_Base Sched.Access Sched.AccessTable Sched.AccessLTS
  Sched.HB_Mutex Sched.HB_Trace Sched.HB_Init.

(* ---------- (1) the table ---------- *)
Lemma lockset_discipline_pf : forallb loc_ok access_table = true.
Proof. vm_compute. reflexivity. Qed.

(* ---------- (2) one mutex ---------- *)
Lemma locked_accesses_ordered_pf : forall tr i j t1 t2 l1 l2 w1 w2,
  wf None tr = true -> (i < j)%nat ->
  nth_error tr i = Some (EAcc t1 l1 w1 true) -> nth_error tr j = Some (EAcc t2 l2 w2 true) ->
  hb tr i j.
Proof. exact HB_Mutex.locked_accesses_ordered_pf. Qed.

(* ---------- (3) callbacks of one group ---------- *)
Lemma lgroup_end tr s i k c g :
  run init tr = Some s -> tr !! i = Some (LEnd k c) -> lgroup tr i = Some g ->
  exists si' w n, st_at tr (S i) = Some si' /\ workers si' !! k = Some (WPost w n) /\
                  gid_of si' w = Some g.
Proof.
  intros Hr Hi Hg. unfold lgroup in Hg. change (run init (take i tr)) with (st_at tr i) in Hg.
  destruct (st_at tr i) as [si|] eqn:Hsi; [|done]. rewrite Hi in Hg.
  destruct (st_at_step _ _ _ _ _ Hr Hsi Hi) as (si' & Hsi' & Hst).
  apply step_end_inv in Hst as (w & n & Hk & ->). rewrite Hk in Hg. simpl in Hg.
  exists (set_workers si k (WPost w (S n))), w, (S n). split; [done|]. split; [|done].
  simpl. apply list_lookup_insert. eauto using lookup_lt_Some.
Qed.

Lemma lgroup_start tr s j k c g :
  run init tr = Some s -> tr !! j = Some (LStart k c) -> lgroup tr j = Some g ->
  exists sj w n, st_at tr j = Some sj /\ workers sj !! k = Some (WPre w n c) /\ gid_of sj w = Some g.
Proof.
  intros Hr Hj Hg. unfold lgroup in Hg. change (run init (take j tr)) with (st_at tr j) in Hg.
  destruct (st_at tr j) as [sj|] eqn:Hsj; [|done]. rewrite Hj in Hg.
  destruct (st_at_step _ _ _ _ _ Hr Hsj Hj) as (sj' & Hsj' & Hst).
  apply step_start_inv in Hst as (w & n & Hk & _). rewrite Hk in Hg. simpl in Hg.
  exists sj, w, n. done.
Qed.

(* Remark (history): before LServeInit required [wq s = None] in Model.v this statement was false:
   a second LServeInit in the Starting state replaced a worker sitting at WPost, and a producer
   left PChecked by an earlier cycle re-created the group:
     [LServeCAS true; LServeInit 1; LServeStarted; LCheck 1 5 100 true; LCheck 2 5 101 true;
      LShutCAS true; LCloseNil; LBroadcast; LConnClose; LSect 0 false RExit; LWgDone; LClearConn; LStopped;
      LServeCAS true; LServeInit 1; LEnq 1 ENew; LSect 0 false (RTake 0); LStart 0 100; LEnd 0 100;
      LServeInit 1; LEnq 2 ENew; LSect 0 false (RTake 1); LStart 0 101]   (i = 18, j = 22).
   The model now rejects the second LServeInit (position 19). *)
Lemma group_memory_hb_pf : forall tr s i j k1 c1 k2 c2 g,
  run init tr = Some s -> (i < j)%nat ->
  tr !! i = Some (LEnd k1 c1) -> tr !! j = Some (LStart k2 c2) ->
  lgroup tr i = Some g -> lgroup tr j = Some g -> g <> 0%N ->
  lhb tr i j.
Proof.
  intros tr s i j k1 c1 k2 c2 g Hr Hlt Hi Hj Hgi Hgj Hg0.
  destruct (lgroup_end _ _ _ _ _ _ Hr Hi Hgi) as (si & w1 & n1 & Hsi & Hk1 & Hg1).
  destruct (lgroup_start _ _ _ _ _ _ Hr Hj Hgj) as (sj & w2 & n2 & Hsj & Hk2 & Hg2).
  destruct (last_sect tr s Hr j sj k2 w2 n2 c2 Hsj Hk2) as (b & rt & r & Hb & Hlb & Hc).
  set (m := max (S b) (S i)).
  destruct (st_at_total tr s m Hr) as [sm Hsm].
  assert (Hk2m : workers sm !! k2 = Some (WPre w2 n2 c2)) by (apply (Hc m sm); [lia|done]).
  assert (Hg2m : gid_of sm w2 = Some g).
  { assert (Hd : m + (j - m) = j) by lia. rewrite <- Hg2. symmetry.
    assert (HcS : forall m' sm', S b <= m' <= j -> st_at tr m' = Some sm' ->
                                 workers sm' !! k2 = Some (WPre w2 n2 c2)).
    { intros m' sm' Hm' Hsm'. apply (Hc m' sm'); [lia|done]. }
    assert (HsjD : st_at tr (m + (j - m)) = Some sj) by (by rewrite Hd).
    exact (gid_const_owned tr s k2 (WPre w2 n2 c2) w2 (S b) j Hr HcS eq_refl (j - m) m sm sj
             ltac:(lia) ltac:(lia) Hsm HsjD). }
  assert (Hpo : lhb tr b j).
  { eapply (lhb_po tr b j); [lia|exact Hlb|exact Hj|done|]. eapply const_no_init; eauto. }
  destruct (first_sect tr s Hr (S i) si k1 w1 n1 g Hsi Hk1 Hg1 m sm ltac:(lia) Hsm)
    as [(Hk1m & Hg1m & _)|(a & l & sa & Ha & Hla & Hsa & Hka & Hni & Hlab)].
  - (* k1 still owns its work item when k2 owns one of the same group: same worker, absurd *)
    exfalso.
    assert (k1 = k2).
    { exact (same_group_same_worker sm k1 k2 _ _ w1 w2 g (st_at_Inv _ _ _ Hsm) Hk1m Hk2m eq_refl eq_refl
               Hg1m Hg2m Hg0). }
    subst k2. congruence.
  - destruct Hlab as [(rt' & r' & ->)|Hin].
    + assert (Hab : a <= b) by lia.
      assert (Hia : lhb tr i a).
      { eapply (lhb_po tr i a); [lia|exact Hi|exact Hla|done|].
        intros m' l' Hm' Hl'. eapply Hni; [|done]. lia. }
      destruct (decide (a = b)) as [->|Hne].
      * eapply lhb_trans; eauto.
      * eapply lhb_trans; [exact Hia|]. eapply lhb_trans; [|exact Hpo].
        eapply (lhb_mu tr a b); [lia|exact Hla|exact Hlb|done|done].
    + (* a serve cycle cannot start while k1 has not exited *)
      exfalso. destruct l; try done.
      destruct (st_at_step _ _ _ _ _ Hr Hsa Hla) as (sa' & _ & Hst).
      pose proof (init_all_exited _ _ _ _ Hsa Hst) as Hex.
      pose proof (all_exited_lookup _ _ _ Hex Hka). done.
Qed.

(* ---------- (4) accepting a callback happens-before starting it ---------- *)
Lemma run_irun tr : forall (x : ist) s,
  run (base x) tr = Some s -> exists x', irun x tr = Some x' /\ base x' = s.
Proof.
  induction tr as [|l tr IH]; intros x s Hr.
  - unfold run in Hr. simpl in Hr. simplify_eq. exists x. done.
  - unfold run in Hr. simpl in Hr. destruct (step_gen true (base x) l) as [s1|] eqn:E; [|done].
    unfold irun. simpl. unfold istep_gen. rewrite E.
    match goal with |- context [irun_gen true ?y tr] => destruct (IH y s Hr) as (x' & Hx & Hb) end.
    exists x'. done.
Qed.

(* every callback sitting in a work item has been accepted (is in the log of its group) *)
Definition qinv (x : ist) : Prop :=
  forall w W c, works (base x) !! w = Some W -> c ∈ w_queue W -> c ∈ glog (genq x) (w_gid W).

Lemma glog_gpush_mono m g c g' c' : c' ∈ glog m g' -> c' ∈ glog (gpush m g c) g'.
Proof.
  intros H. destruct (decide (g' = g)) as [->|Hne].
  - rewrite glog_gpush_eq. apply elem_of_app. by left.
  - rewrite glog_gpush_ne by congruence. done.
Qed.

Lemma ieff_qinv x l x' : Inv (base x) -> ieff x l x' -> qinv x -> qinv x'.
Proof.
  intros HI He HQ w W c HW Hc.
  destruct He as [He Ht Hrw Hws Hwk _
                 |g0 c0 q Hq Hg0 He Ht Hq' Hrw Hws Hwk
                 |g0 c0 w0 W0 Hg0 Hr HW0 He Ht Hq' Hrw Hws Hwk
                 |k p p' Hk Ho Hh He Ht Hq' Hrw Hws Hwk
                 |k w0 i c0 g0 W0 Hk HW0 HgW Hi He Ht Hq' Hrw Hws Hwk
                 |k p w0 r W0 c0 Hq Hk Ho HW0 Hc0 He Ht Hq' Hrw Hws Hwk
                 |n Hl He Ht Hq' Hrw Hws Hwk]; rewrite Hws in HW; rewrite He.
  - eauto.
  - apply lookup_insert_Some in HW as [[<- <-]|[_ HW]].
    + simpl in *. apply elem_of_list_singleton in Hc as ->. rewrite glog_gpush_eq.
      apply elem_of_app. right. by apply elem_of_list_singleton.
    + apply glog_gpush_mono. eauto.
  - apply lookup_insert_Some in HW as [[<- <-]|[_ HW]].
    + simpl in *. destruct (i_rw _ _ _ _ _ HI _ _ Hr) as (_ & W2 & HW2 & HgW).
      assert (W2 = W0) as -> by congruence.
      apply elem_of_app in Hc as [Hc|Hc].
      * apply glog_gpush_mono. eauto.
      * apply elem_of_list_singleton in Hc as ->. rewrite HgW, glog_gpush_eq.
        apply elem_of_app. right. by apply elem_of_list_singleton.
    + apply glog_gpush_mono. eauto.
  - eauto.
  - eauto.
  - eauto.
  - by rewrite lookup_empty in HW.
Qed.

Lemma irun_qinv tr x : irun iinit tr = Some x -> qinv x.
Proof.
  revert tr x. apply (irun_ind (fun _ x => qinv x)).
  - intros w W c HW. unfold iinit, init in HW. simpl in HW. by rewrite lookup_empty in HW.
  - intros tr x l x' Hr HQ Hs. pose proof (irun_Inv _ _ Hr) as HI.
    destruct (istep_inv _ _ _ HI Hs) as [He|(k & w0 & i & W0 & Hk & HW0 & Hi & He)].
    + eapply ieff_qinv; eauto.
    + eapply ieff_qinv; [|exact He|].
      * simpl. eapply retired_Inv; eauto.
      * intros w W c HW Hc. simpl in *. apply lookup_delete_Some in HW as [_ HW]. eauto.
Qed.

Lemma submit_hb_start_pf : forall tr s i j p r k c g,
  run init tr = Some s -> NoDup (checked_cbs tr) -> (i < j)%nat ->
  tr !! i = Some (LEnq p r) -> lenq tr i = Some (g, c) -> tr !! j = Some (LStart k c) ->
  lhb tr i j.
Proof.
  intros tr s i j p r k c g Hr Hnd Hlt Hi Hq Hj.
  unfold lenq in Hq. change (run init (take i tr)) with (st_at tr i) in Hq.
  destruct (st_at tr i) as [si|] eqn:Hsi; [|done]. rewrite Hi in Hq.
  assert (Hp : prods si !! p = Some (PChecked g c)).
  { destruct r; try done; destruct (prods si !! p) as [[]|]; by simplify_eq. }
  clear Hq.
  destruct (st_at_total tr s j Hr) as [sj Hsj].
  destruct (st_at_step _ _ _ _ _ Hr Hsj Hj) as (sj' & _ & Hst).
  apply step_start_inv in Hst as (w & n & Hk & _).
  destruct (last_sect tr s Hr j sj k w n c Hsj Hk) as (b & rt & r0 & Hb & Hlb & Hc).
  assert (Hpo : lhb tr b j).
  { eapply (lhb_po tr b j); [lia|exact Hlb|exact Hj|done|]. eapply const_no_init; eauto. }
  destruct (decide (b < i)) as [Hbi|Hbi].
  - (* the callback would sit in a work item before being accepted *)
    exfalso.
    assert (Hki : workers si !! k = Some (WPre w n c)) by (apply (Hc i si); [lia|done]).
    pose proof (st_at_Inv _ _ _ Hsi) as HI.
    destruct (i_pc _ _ _ _ _ HI _ _ Hki) as (W & HW & Hn).
    unfold st_at in Hsi.
    destruct (run_irun (take i tr) iinit si Hsi) as (x & Hx & Hbx). subst si.
    assert (Hndi : NoDup (checked_cbs (take i tr))).
    { rewrite <- (take_drop i tr), checked_cbs_app in Hnd. by apply NoDup_app in Hnd as (? & _ & _). }
    pose proof (irun_AMO _ _ Hx Hndi) as HA.
    destruct (a_prod _ _ HA _ _ _ Hp) as [_ Hno].
    apply (Hno (w_gid W)). eapply (irun_qinv _ _ Hx); [exact HW|].
    eapply elem_of_list_lookup_2; eauto.
  - assert (b <> i) by (intros ->; congruence).
    eapply lhb_trans; [|exact Hpo].
    eapply (lhb_mu tr i b); [lia|exact Hi|exact Hlb|done|done].
Qed.

(* ---------- (5) the hypotheses of (3) are met by two different workers ---------- *)
Definition tr_hb : list label :=
  [LServeCAS true; LServeInit 2; LServeStarted;
   LCheck 1 5 100 true; LEnq 1 ENew; LSect 0 false (RTake 0); LStart 0 100; LEnd 0 100;
   LSect 0 true RWait;
   LCheck 2 5 101 true; LEnq 2 ENew; LSect 1 false (RTake 1); LStart 1 101]%N.

Lemma hb_nonvacuous_pf : exists tr s i j k1 k2 c1 c2,
  run init tr = Some s /\ (i < j)%nat /\ k1 <> k2 /\
  tr !! i = Some (LEnd k1 c1) /\ tr !! j = Some (LStart k2 c2) /\
  lgroup tr i = Some 5%N /\ lgroup tr j = Some 5%N.
Proof.
  destruct (run init tr_hb) as [s|] eqn:E; [|by vm_compute in E].
  exists tr_hb, s, 7, 12, 0, 1, 100%N, 101%N.
  split; [done|]. split; [lia|]. split; [lia|].
  split_and!; vm_compute; reflexivity.
Qed.

(* the atomic steps of the scheduler LTS are single critical sections in the code (table-level check) *)
Lemma lock_granularity_pf : granularity_ok access_table = true.
Proof. vm_compute. reflexivity. Qed.
