(* C16 helper: the generic one-mutex theorem on [ev] traces (Sched/Access.v):
   two accesses made while holding the mutex are ordered by happens-before. *)
From Coq Require Import List Bool Arith Lia.
Import ListNotations.
From GoRes Require Import Sched.Access.

(* (A) the mutex is held by t and a later locked access is made by u <> t:
       t releases and then u acquires, both before the access;
   (B) the mutex is free and a later locked access is made by u: u acquires before it. *)
Lemma handover tr :
  (forall j t u l w, wf (Some t) tr = true -> nth_error tr j = Some (EAcc u l w true) -> t <> u ->
     exists i' j', i' < j' /\ j' < j /\ nth_error tr i' = Some (ERel t) /\ nth_error tr j' = Some (EAcq u)) /\
  (forall j u l w, wf None tr = true -> nth_error tr j = Some (EAcc u l w true) ->
     exists j', j' < j /\ nth_error tr j' = Some (EAcq u)).
Proof.
  induction tr as [|e r [IHA IHB]].
  - split; intros; destruct j; discriminate.
  - split.
    + intros j t u l w Hwf Hj Hne. destruct j as [|j].
      * simpl in Hj. inversion Hj; subst e. simpl in Hwf.
        apply andb_true_iff in Hwf as [He _]. apply Nat.eqb_eq in He. congruence.
      * simpl in Hj. destruct e as [t'|t'|t' l' w' lk]; simpl in Hwf.
        -- discriminate.
        -- apply andb_true_iff in Hwf as [He Hwf]. apply Nat.eqb_eq in He. subst t'.
           destruct (IHB j u l w Hwf Hj) as (j' & Hlt & Hj').
           exists 0, (S j'). repeat split; simpl; auto; lia.
        -- apply andb_true_iff in Hwf as [_ Hwf].
           destruct (IHA j t u l w Hwf Hj Hne) as (i' & j' & H1 & H2 & H3 & H4).
           exists (S i'), (S j'). repeat split; simpl; auto; lia.
    + intros j u l w Hwf Hj. destruct j as [|j].
      * simpl in Hj. inversion Hj; subst e. simpl in Hwf. discriminate.
      * simpl in Hj. destruct e as [t'|t'|t' l' w' lk]; simpl in Hwf.
        -- destruct (Nat.eq_dec t' u) as [->|Hne].
           ++ exists 0. split; [lia|simpl; auto].
           ++ destruct (IHA j t' u l w Hwf Hj Hne) as (i' & j' & H1 & H2 & H3 & H4).
              exists (S j'). split; [lia|simpl; auto].
        -- discriminate.
        -- destruct lk; [discriminate|]. simpl in Hwf.
           destruct (IHB j u l w Hwf Hj) as (j' & Hlt & Hj').
           exists (S j'). split; [lia|simpl; auto].
Qed.

Lemma wf_tail h e r : wf h (e :: r) = true -> exists h', wf h' r = true.
Proof.
  destruct e as [t|t|t l w lk]; simpl.
  - destruct h; [discriminate|]. eauto.
  - destruct h; [|discriminate]. intros H. apply andb_true_iff in H as [_ H]. eauto.
  - intros H. apply andb_true_iff in H as [_ H]. eauto.
Qed.

Lemma handover_between tr : forall h i j t1 t2 l1 l2 w1 w2,
  wf h tr = true -> i < j -> t1 <> t2 ->
  nth_error tr i = Some (EAcc t1 l1 w1 true) -> nth_error tr j = Some (EAcc t2 l2 w2 true) ->
  exists i' j', i < i' /\ i' < j' /\ j' < j /\
    nth_error tr i' = Some (ERel t1) /\ nth_error tr j' = Some (EAcq t2).
Proof.
  induction tr as [|e r IH]; intros h i j t1 t2 l1 l2 w1 w2 Hwf Hlt Hne Hi Hj.
  - destruct i; discriminate.
  - destruct j as [|j]; [lia|]. simpl in Hj. destruct i as [|i].
    + simpl in Hi. inversion Hi; subst e. simpl in Hwf.
      apply andb_true_iff in Hwf as [He Hwf]. destruct h as [t'|]; [|discriminate].
      apply Nat.eqb_eq in He. subst t'.
      destruct (proj1 (handover r) j t1 t2 l2 w2 Hwf Hj Hne) as (i' & j' & H1 & H2 & H3 & H4).
      exists (S i'), (S j'). repeat split; simpl; auto; lia.
    + simpl in Hi. destruct (wf_tail _ _ _ Hwf) as [h' Hwf'].
      destruct (IH h' i j t1 t2 l1 l2 w1 w2 Hwf' ltac:(lia) Hne Hi Hj) as (i' & j' & H1 & H2 & H3 & H4 & H5).
      exists (S i'), (S j'). repeat split; simpl; auto; lia.
Qed.

Lemma locked_accesses_ordered_pf : forall tr i j t1 t2 l1 l2 w1 w2,
  wf None tr = true -> (i < j)%nat ->
  nth_error tr i = Some (EAcc t1 l1 w1 true) -> nth_error tr j = Some (EAcc t2 l2 w2 true) ->
  hb tr i j.
Proof.
  intros tr i j t1 t2 l1 l2 w1 w2 Hwf Hlt Hi Hj.
  destruct (Nat.eq_dec t1 t2) as [->|Hne].
  - eapply hb_po; eauto.
  - destruct (handover_between tr None i j t1 t2 l1 l2 w1 w2 Hwf Hlt Hne Hi Hj)
      as (i' & j' & H1 & H2 & H3 & H4 & H5).
    eapply hb_trans; [eapply (hb_po tr i i'); eauto|].
    eapply hb_trans; [eapply (hb_sw tr i' j'); eauto|].
    eapply (hb_po tr j' j); eauto.
Qed.
