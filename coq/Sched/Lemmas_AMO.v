(* Accepted callbacks are distinct when the callbacks handed to runWith are distinct. *)
From stdpp Require Import gmap.
From Coq Require Import NArith Lia.
From GoRes Require Import Sched.Model Sched.Spec Sched.Lemmas_Ghost.

Record AMO (tr : list label) (s : ist) : Prop := {
  a_log : forall g c, c ∈ glog (genq s) g -> c ∈ checked_cbs tr;
  a_prod : forall p g c, prods (base s) !! p = Some (PChecked g c) ->
             c ∈ checked_cbs tr /\ forall g', c ∉ glog (genq s) g';
  a_inj : forall p1 p2 g1 g2 c, prods (base s) !! p1 = Some (PChecked g1 c) ->
             prods (base s) !! p2 = Some (PChecked g2 c) -> p1 = p2;
  a_nd : forall g, NoDup (glog (genq s) g)
}.

Definition pchange (s s' : ist) (l : label) : Prop :=
  (exists p g c, l = LCheck p g c true /\ prods (base s) !! p = None /\
                 prods (base s') = <[p := PChecked g c]> (prods (base s)) /\ genq s' = genq s)
  \/ (checked_cbs [l] = [] /\
      ((prods (base s') = prods (base s) /\ genq s' = genq s)
       \/ (exists p g c, prods (base s) !! p = Some (PChecked g c) /\ genq s' = gpush (genq s) g c /\
                         (prods (base s') = <[p:=PSignal]> (prods (base s)) \/
                          prods (base s') = delete p (prods (base s))))
       \/ (exists p, prods (base s') = delete p (prods (base s)) /\ genq s' = genq s))).

Lemma head_eval_prods s k s1 r : head_eval s k = Some (s1, r) -> prods s1 = prods s.
Proof.
  unfold head_eval. destruct (wq s) as [[|w q]|].
  - intros [= <- _]. done.
  - destruct (works s !! w) as [W|]; [|done]. destruct (w_queue W !! 0%nat); [|done].
    intros [= <- _]. done.
  - intros [= <- _]. done.
Qed.

Lemma istep_pchange s l s' : istep s l = Some s' -> pchange s s' l.
Proof.
  intros Hs. destruct s as [b e t]. unfold istep, istep_gen in Hs. simpl in *.
  destruct (step_gen true b l) as [b'|] eqn:Hb; [|done]. inversion Hs; subst s'. clear Hs.
  unfold step_gen in Hb. unfold pchange. simpl.
  destruct l as [p g c ok|p r|p|k retd r|k|k c|k c|ok| | | | | | |ok|n| |p ok|p sent].
  - destruct (prods b !! p) eqn:Ep; [done|]. destruct (bool_eq ok (started b)); [|done].
    inversion Hb; subst. destruct ok.
    + left. exists p, g, c. done.
    + right. split; [done|]. left. done.
  - right. split; [done|].
    destruct (prods b !! p) as [[g c|]|] eqn:Ep; try done.
    destruct (wq b) as [q|] eqn:Eq.
    + destruct (N.eqb g 0).
      * destruct r; try done. inversion Hb; subst. right; left. exists p, g, c. simpl. auto.
      * destruct (rwork b !! g) as [w|] eqn:Er.
        -- destruct (works b !! w) as [W|] eqn:EW; [|done].
           destruct r; try done. inversion Hb; subst. right; left. exists p, g, c. simpl. auto.
        -- destruct r; try done. inversion Hb; subst. right; left. exists p, g, c. simpl. auto.
    + destruct r; try done. inversion Hb; subst. right; right. exists p. simpl. done.
  - right. split; [done|].
    destruct (prods b !! p) as [[|]|]; try done. inversion Hb; subst.
    right; right. exists p. destruct (tokens b <? n_waiting b)%nat; done.
  - right. split; [done|]. left. split; [|done].
    destruct (workers b !! k) as [pc|] eqn:Ek; [|done].
    destruct pc as [| | |w i c|w i c|w i|]; try done.
    + destruct retd; [done|]. destruct (head_eval b k) as [[s1 r1]|] eqn:Eh; [|done].
      destruct (res_eq r r1); [|done]. inversion Hb; subst. eapply head_eval_prods; eauto.
    + destruct retd; [done|]. destruct (head_eval b k) as [[s1 r1]|] eqn:Eh; [|done].
      destruct (res_eq r r1); [|done]. inversion Hb; subst. eapply head_eval_prods; eauto.
    + destruct (works b !! w) as [W|] eqn:EW; [|done].
      destruct (w_queue W !! i) as [c|] eqn:Ec.
      * destruct (negb retd && res_eq r RNext); [|done]. inversion Hb; subst. done.
      * destruct retd; [|done].
        match type of Hb with context [head_eval ?s0 k] =>
          destruct (head_eval s0 k) as [[s1 r1]|] eqn:Eh; [|done] end.
        destruct (res_eq r r1); [|done]. inversion Hb; subst.
        apply head_eval_prods in Eh. done.
  - right. split; [done|]. left.
    destruct (workers b !! k) as [[]|] eqn:Ek; try done. inversion Hb; subst. done.
  - right. split; [done|]. left.
    destruct (workers b !! k) as [[| | |w i c'| | |]|] eqn:Ek; try done.
    destruct (N.eqb c c'); [|done]. inversion Hb; subst. done.
  - right. split; [done|]. left.
    destruct (workers b !! k) as [[| | | |w i c'| |]|] eqn:Ek; try done.
    destruct (N.eqb c c'); [|done]. inversion Hb; subst. done.
  - right. split; [done|]. left. destruct (bool_eq ok (started b)); [|done]. inversion Hb; subst.
    destruct ok; done.
  - right. split; [done|]. left. destruct (shut b); try done. inversion Hb; subst. done.
  - right. split; [done|]. left. destruct (shut b); try done. inversion Hb; subst. done.
  - right. split; [done|]. left. destruct (shut b); try done. inversion Hb; subst. done.
  - right. split; [done|]. left. destruct (shut b); try done. destruct (all_exited b); [|done].
    inversion Hb; subst. done.
  - right. split; [done|]. left. destruct (shut b); try done. inversion Hb; subst. done.
  - right. split; [done|]. left. destruct (shut b); try done. inversion Hb; subst. done.
  - right. split; [done|]. left.
    destruct (bool_eq ok (bool_decide (svc b = Stopped))); [|done]. inversion Hb; subst.
    destruct ok; done.
  - right. split; [done|]. left. destruct (svc b); try done. destruct (wq b); [done|]. destruct n; [done|].
    inversion Hb; subst. done.
  - right. split; [done|]. left. destruct (svc b); try done. destruct (wq b); [|done].
    inversion Hb; subst. done.
  - right. split; [done|]. left. destruct (bool_decide (p ∈ pubs b)); [done|].
    destruct (bool_eq ok (started b)); [|done]. inversion Hb; subst. destruct ok; done.
  - right. split; [done|]. left. destruct (bool_decide (p ∈ pubs b)); [|done].
    destruct (bool_eq sent (nc b)); [|done]. inversion Hb; subst. done.
Qed.

Lemma AMO_init : AMO [] iinit.
Proof.
  split; simpl.
  - intros g c. unfold glog. rewrite lookup_empty. simpl. intros H. by apply elem_of_nil in H.
  - intros p g c. by rewrite lookup_empty.
  - intros p1 p2 g1 g2 c. by rewrite lookup_empty.
  - intros g. unfold glog. rewrite lookup_empty. constructor.
Qed.

Lemma AMO_step tr s l s' :
  NoDup (checked_cbs (tr ++ [l])) -> AMO tr s -> istep s l = Some s' -> AMO (tr ++ [l]) s'.
Proof.
  intros Hnd [H1 H2 H3 H4] Hs. rewrite checked_cbs_app in Hnd.
  destruct (istep_pchange _ _ _ Hs) as
    [(p & g & c & -> & Hp & Hpr & He)|[Hl [[Hpr He]|[(p & g & c & Hp & He & Hpr)|(p & Hpr & He)]]]].
  - simpl in *. apply NoDup_app in Hnd as (_ & Hnd & _).
    assert (Hc : c ∉ checked_cbs tr).
    { intros Hin. apply (Hnd c Hin). by apply elem_of_list_singleton. }
    split; rewrite ?checked_cbs_app, ?He, ?Hpr; simpl.
    + intros g' c' Hin. apply elem_of_app. left. eauto.
    + intros p' g' c' Hp'. apply lookup_insert_Some in Hp' as [[<- [= <- <-]]|[Hne Hp']].
      * split; [apply elem_of_app; right; by apply elem_of_list_singleton|].
        intros g' Hin. apply Hc. eauto.
      * destruct (H2 _ _ _ Hp') as [Ha Hb]. split; [|done]. apply elem_of_app. by left.
    + intros p1 p2 g1 g2 c' Ha Hb.
      apply lookup_insert_Some in Ha as [[<- [= <- <-]]|[Hne1 Ha]];
      apply lookup_insert_Some in Hb as [[<- Hb]|[Hne2 Hb]]; try done.
      * exfalso. apply Hc. by eapply H2.
      * inversion Hb; subst. exfalso. apply Hc. by eapply H2.
      * eauto.
    + done.
  - split; rewrite ?checked_cbs_app, ?Hl, ?app_nil_r, ?He, ?Hpr; done.
  - assert (Hsub : forall p' g' c', prods (base s') !! p' = Some (PChecked g' c') ->
                     p' <> p /\ prods (base s) !! p' = Some (PChecked g' c')).
    { intros p' g' c' Hp'. destruct Hpr as [Hpr|Hpr]; rewrite Hpr in Hp'.
      - apply lookup_insert_Some in Hp' as [[_ ?]|[? ?]]; [done|]. split; done.
      - apply lookup_delete_Some in Hp' as [? ?]. split; done. }
    destruct (H2 _ _ _ Hp) as [Hpc Hpn].
    split; rewrite ?checked_cbs_app, ?Hl, ?app_nil_r, ?He.
    + intros g' c' Hin. destruct (decide (g' = g)) as [->|Hne].
      * rewrite glog_gpush_eq in Hin. apply elem_of_app in Hin as [Hin|Hin]; [eauto|].
        apply elem_of_list_singleton in Hin. by subst.
      * rewrite glog_gpush_ne in Hin by done. eauto.
    + intros p' g' c' Hp'. apply Hsub in Hp' as [Hne Hp']. destruct (H2 _ _ _ Hp') as [Ha Hb].
      split; [done|]. intros g''. destruct (decide (g'' = g)) as [->|Hne'].
      * rewrite glog_gpush_eq. intros Hin. apply elem_of_app in Hin as [Hin|Hin]; [by eapply Hb|].
        apply elem_of_list_singleton in Hin. subst. apply Hne. eapply H3; eauto.
      * rewrite glog_gpush_ne by done. apply Hb.
    + intros p1 p2 g1 g2 c' Ha Hb. apply Hsub in Ha as [_ Ha]. apply Hsub in Hb as [_ Hb]. eauto.
    + intros g'. destruct (decide (g' = g)) as [->|Hne].
      * rewrite glog_gpush_eq. apply NoDup_app. split; [done|]. split; [|apply NoDup_singleton].
        intros x Hx Hx'. apply elem_of_list_singleton in Hx'. subst. by eapply Hpn.
      * rewrite glog_gpush_ne by done. done.
  - assert (Hsub : forall p' g' c', prods (base s') !! p' = Some (PChecked g' c') ->
                     prods (base s) !! p' = Some (PChecked g' c')).
    { intros p' g' c' Hp'. rewrite Hpr in Hp'. by apply lookup_delete_Some in Hp' as [? ?]. }
    split; rewrite ?checked_cbs_app, ?Hl, ?app_nil_r, ?He; eauto.
Qed.

Lemma irun_AMO tr s : irun iinit tr = Some s -> NoDup (checked_cbs tr) -> AMO tr s.
Proof.
  revert tr s. apply (irun_ind (fun tr s => NoDup (checked_cbs tr) -> AMO tr s)).
  - intros _. apply AMO_init.
  - intros tr s l s' Hr IH Hs Hnd. eapply AMO_step; [done| |exact Hs]. apply IH.
    rewrite checked_cbs_app in Hnd. by apply NoDup_app in Hnd as (? & _ & _).
Qed.
