(* C16: lockset discipline over the table of shared-field accesses that a go/ast pass
   (harness/cmd/race/accesses.go) extracts from /repo's source on every run, and the
   happens-before vocabulary for the two theorems that lift the discipline to executions.
   No proofs here. *)
From Coq Require Import String List Bool Arith NArith.
Import ListNotations.
Local Open Scope string_scope.

Record acc := Acc {
  a_func : string;      (* enclosing function, Recv.Name *)
  a_struct : string;    (* Service | work | queryEvent *)
  a_field : string;
  a_write : bool;
  a_locked : bool;      (* syntactically inside s.mu.Lock() .. s.mu.Unlock() *)
  a_atomic : bool;      (* argument of a sync/atomic call *)
  a_sync : bool;        (* operation of a self-synchronising object: WaitGroup/Cond method, channel op *)
  a_region : N          (* number of the critical section of s.mu inside a_func the access lies in; 0 = unlocked *)
}.

Definition inb (s : string) (l : list string) : bool := existsb (String.eqb s) l.

(* functions documented as "call before Serve" (configuration time), plus setDefaultOwnership whose
   writes are guarded by `== nil` and first happen in serve() before the state becomes started *)
Definition config_funcs : list string :=
  ["Service.SetLogger"; "Service.SetQueryEventDuration"; "Service.SetWorkerCount"; "Service.SetInChannelSize";
   "Service.SetQueueGroup"; "Service.SetOnServe"; "Service.SetOnDisconnect"; "Service.SetOnReconnect";
   "Service.SetOnError"; "Service.SetOwnedResources"; "Service.SetReset"; "Service.setDefaultOwnership"].

(* unlocked READS of the connection fields that are ordered with the (locked) writes by other means:
   - replies / QueryEvent run inside callbacks, which Shutdown drains (wg.Wait) before clearing (C03 drained);
   - close() runs on the Shutdown thread itself, the only writer after start-up;
   - subscribe() runs on Serve's goroutine during start-up (Shutdown concurrent with Serve's own start-up
     is outside the concurrent uses C16 lists);
   - configuration-time setters. *)
Definition ctx_readers : list string :=
  ["Request.reply"; "queryRequest.reply"; "resource.QueryEvent"; "Service.close"; "Service.subscribe"] ++ config_funcs.

Definition lock_fields : list string := ["rwork"; "workqueue"; "workbuf"; "stopped"].
Definition lockw_fields : list string := ["nc"; "inCh"; "queryTQ"; "workcond"].
Definition config_fields : list string :=
  ["logger"; "queueGroup"; "resetResources"; "resetAccess"; "ownedResources"; "ownedAccess"; "queryDuration"; "workerCount"; "inChannelSize";
   "onServe"; "onDisconnect"; "onReconnect"; "onError"].

Definition loc_ok (a : acc) : bool :=
  if a_sync a then true else
  if String.eqb (a_struct a) "Service" then
    if String.eqb (a_field a) "state" then a_atomic a
    else if String.eqb (a_field a) "usercode" then negb (a_locked a)   (* no logger / hook call under s.mu *)
    else if inb (a_field a) lock_fields then a_locked a
    else if inb (a_field a) lockw_fields then
      if a_write a then a_locked a else a_locked a || inb (a_func a) ctx_readers
    else if inb (a_field a) config_fields then
      if a_write a then inb (a_func a) config_funcs else true
    else if String.eqb (a_field a) "wg" then a_sync a
    else false                       (* unclassified field: must be classified before it is accepted *)
  else if String.eqb (a_struct a) "work" then
    if inb (a_field a) ["queue"; "single"] then a_locked a
    else if inb (a_field a) ["wid"; "s"] then negb (a_write a)      (* immutable after construction *)
    else false
  else if String.eqb (a_struct a) "queryEvent" then negb (a_write a)  (* immutable after construction *)
  else false.

(* the field is one the policy knows about.  An access to a field the policy does not classify (a field added by
   a change) is not a lockset violation by itself: it is absent from the committed table, which breaks the
   correspondence (reported as such), and the race-detector runs look for a concrete conflicting access. *)
Definition classified (a : acc) : bool :=
  if String.eqb (a_struct a) "Service" then
    String.eqb (a_field a) "state" || String.eqb (a_field a) "usercode" || inb (a_field a) lock_fields || inb (a_field a) lockw_fields ||
    inb (a_field a) config_fields || inb (a_field a) ["wg"; "mu"]
  else if String.eqb (a_struct a) "work" then inb (a_field a) ["queue"; "single"; "wid"; "s"]
  else String.eqb (a_struct a) "queryEvent".

Definition acc_eqb (a b : acc) : bool :=
  String.eqb (a_func a) (a_func b) && String.eqb (a_struct a) (a_struct b) && String.eqb (a_field a) (a_field b) &&
  Bool.eqb (a_write a) (a_write b) && Bool.eqb (a_locked a) (a_locked b) && Bool.eqb (a_atomic a) (a_atomic b) &&
  Bool.eqb (a_sync a) (a_sync b).

(* ---- lock granularity: the atomic steps of the scheduler LTS (Sched/Model.v) are single critical sections
   in the code.  LSect (worker): the test "is there another callback in the work item" and the removal of the
   group's rwork entry happen under ONE hold of s.mu; LEnq (runWith): the nil-queue test, the rwork lookup and
   the append / registration happen under ONE hold of s.mu.  Checked on the extracted table: in the named
   function, every critical section that contains one of the [trigger] accesses also contains all [needed] ones. *)
Definition is_acc (st fld : string) (w : bool) (a : acc) : bool :=
  String.eqb (a_struct a) st && String.eqb (a_field a) fld && Bool.eqb (a_write a) w.
Definition in_region (f : string) (r : N) (a : acc) : bool :=
  String.eqb (a_func a) f && N.eqb (a_region a) r && a_locked a.
Definition region_has (t : list acc) (f : string) (r : N) (p : acc -> bool) : bool :=
  existsb (fun a => in_region f r a && p a) t.
Definition atomic_req (t : list acc) (f : string) (trigger : acc -> bool) (needed : list (acc -> bool)) : bool :=
  forallb (fun a => if String.eqb (a_func a) f && trigger a
                    then a_locked a && forallb (region_has t f (a_region a)) needed
                    else true) t.
Definition granularity_ok (t : list acc) : bool :=
  (* worker: deleting the rwork entry is in the same critical section as the emptiness test of the queue *)
  atomic_req t "work.processQueue" (is_acc "Service" "rwork" true) [is_acc "work" "queue" false] &&
  existsb (fun a => String.eqb (a_func a) "work.processQueue" && is_acc "Service" "rwork" true a) t &&
  (* runWith: appending to a work item / registering a new one is in the same critical section as the
     nil-queue test and the rwork lookup *)
  atomic_req t "Service.runWith" (fun a => is_acc "work" "queue" true a || is_acc "Service" "rwork" true a || is_acc "Service" "workqueue" true a)
             [is_acc "Service" "workqueue" false; is_acc "Service" "rwork" false] &&
  existsb (fun a => String.eqb (a_func a) "Service.runWith" && is_acc "work" "queue" true a) t &&
  (* the worker loop takes work from the queue under the lock it tested the queue with *)
  atomic_req t "Service.startWorker" (is_acc "Service" "workqueue" true) [is_acc "Service" "workqueue" false].

(* ---- executions with one mutex: lock-protected accesses are ordered by happens-before ---- *)
Inductive ev :=
  | EAcq (t : nat) | ERel (t : nat)
  | EAcc (t : nat) (loc : nat) (w : bool) (locked : bool).
Definition ev_thread (e : ev) : nat := match e with EAcq t | ERel t | EAcc t _ _ _ => t end.

(* the mutex is respected and "locked" accesses are made by the holder *)
Fixpoint wf (holder : option nat) (tr : list ev) : bool :=
  match tr with
  | [] => true
  | EAcq t :: r => match holder with None => wf (Some t) r | Some _ => false end
  | ERel t :: r => match holder with Some t' => Nat.eqb t t' && wf None r | None => false end
  | EAcc t _ _ lk :: r =>
    (if lk then match holder with Some t' => Nat.eqb t t' | None => false end else true) && wf holder r
  end.

(* happens-before on positions of a trace: program order, unlock -> later lock, transitivity *)
Inductive hb (tr : list ev) : nat -> nat -> Prop :=
  | hb_po i j a b : i < j -> nth_error tr i = Some a -> nth_error tr j = Some b -> ev_thread a = ev_thread b -> hb tr i j
  | hb_sw i j t u : i < j -> nth_error tr i = Some (ERel t) -> nth_error tr j = Some (EAcq u) -> hb tr i j
  | hb_trans i j k : hb tr i j -> hb tr j k -> hb tr i k.
