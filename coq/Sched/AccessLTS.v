(* Happens-before on label traces of the scheduler LTS (C16, second half): callbacks of one group
   are ordered by happens-before, so state touched only from a group's callbacks needs no
   synchronisation by the user.  No proofs here. *)
From stdpp Require Import gmap.
From Coq Require Import NArith.
From GoRes Require Export Sched.Spec.

Inductive thr := TWorker (k : nat) | TProd (p : N) | TShut | TServe | TPub (p : N).
Global Instance thr_eq_dec : EqDecision thr.
Proof. solve_decision. Defined.

Definition lthread (l : label) : thr :=
  match l with
  | LCheck p _ _ _ | LEnq p _ | LSignal p => TProd p
  | LSect k _ _ | LWake k | LStart k _ | LEnd k _ => TWorker k
  | LShutCAS _ | LCloseNil | LBroadcast | LConnClose | LWgDone | LClearConn | LStopped => TShut
  | LServeCAS _ | LServeInit _ | LServeStarted => TServe
  | LPubCheck p _ | LPubUse p _ => TPub p
  end.

(* labels that are critical sections of s.mu: each one's unlock happens-before every later one's lock *)
Definition lock_section (l : label) : bool :=
  match l with
  | LEnq _ _ | LSect _ _ _ | LCloseNil | LClearConn | LServeInit _ | LPubUse _ _ => true
  | _ => false
  end.

Definition is_init (l : label) : bool := match l with LServeInit _ => true | _ => false end.
(* no serve cycle starts strictly between positions i and j (worker numbers are reused per cycle) *)
Definition same_cycle (tr : list label) (i j : nat) : Prop :=
  forall m l, i < m < j -> tr !! m = Some l -> is_init l = false.

Inductive lhb (tr : list label) : nat -> nat -> Prop :=
  | lhb_po i j a b : i < j -> tr !! i = Some a -> tr !! j = Some b -> lthread a = lthread b ->
                     same_cycle tr i j -> lhb tr i j
  | lhb_mu i j a b : i < j -> tr !! i = Some a -> tr !! j = Some b ->
                     lock_section a = true -> lock_section b = true -> lhb tr i j
  | lhb_trans i j k : lhb tr i j -> lhb tr j k -> lhb tr i k.

(* group (of the work item owned by the label's worker) of the LStart / LEnd label at position i *)
Definition lgroup (tr : list label) (i : nat) : option N :=
  match run init (take i tr), tr !! i with
  | Some s, Some (LStart k _) | Some s, Some (LEnd k _) =>
    match workers s !! k with
    | Some p => match owned p with Some w => gid_of s w | None => None end
    | None => None
    end
  | _, _ => None
  end.

(* the callback accepted by the LEnq label at position i, with its group *)
Definition lenq (tr : list label) (i : nat) : option (N * N) :=
  match run init (take i tr), tr !! i with
  | Some s, Some (LEnq p ENew) | Some s, Some (LEnq p EAppend) =>
    match prods s !! p with Some (PChecked g c) => Some (g, c) | _ => None end
  | _, _ => None
  end.
