(* C03 safety invariant: relation between svc / shut / wq / closes / exited workers. *)
From stdpp Require Import gmap.
From Coq Require Import NArith Lia.
From GoRes Require Import Sched.Spec Sched.Shut_Base.

Definition inv (s : st) : Prop :=
  panicked s = false /\
  match shut s with
  | SIdle =>
    match svc s with
    | Stopped => wq s = None /\ all_exited s = true /\ closes s <= 1
    | Starting => (wq s = None \/ closes s = 0) /\ closes s <= 1
    | Started => closes s = 0
    | Stopping => False
    end
  | SCas => svc s = Stopping /\ closes s = 0
  | SNil | SBcast => svc s = Stopping /\ wq s = None /\ closes s = 0
  | SConnClosed => svc s = Stopping /\ wq s = None /\ closes s = 1
  | SWaited | SCleared => svc s = Stopping /\ wq s = None /\ closes s = 1 /\ all_exited s = true
  end.

Lemma inv_init : inv init.
Proof. unfold inv, init. cbn. auto. Qed.

(* what a worker step leaves unchanged *)
Definition wframe (s s' : st) : Prop :=
  svc s' = svc s /\ shut s' = shut s /\ closes s' = closes s /\ panicked s' = panicked s /\
  (wq s = None -> wq s' = None) /\ (wq s <> None -> wq s' <> None) /\ nc s' = nc s.

Lemma head_eval_frame s k s' r : head_eval s k = Some (s', r) -> wframe s s'.
Proof.
  intros H. apply head_eval_inv in H as [(E & -> & _)|[(E & -> & _)|(w & q & W & c & E & _ & _ & -> & _)]];
    unfold wframe; cbn; rewrite ?E; repeat split; auto; congruence.
Qed.

Lemma wframe_trans_setq s q rw ws s' : wq s = q -> wframe (set_q s q rw ws) s' -> wframe s s'.
Proof. intros <-. unfold wframe. cbn. auto. Qed.

Definition worker_label (l : label) : Prop :=
  match l with LSect _ _ _ | LWake _ | LStart _ _ | LEnd _ _ => True | _ => False end.

Lemma worker_step_frame s l s' : worker_label l -> step s l = Some s' ->
  wframe s s' /\ all_exited s = false.
Proof.
  intros WL HS. destruct l; try done.
  - apply step_sect_inv in HS as [(p & Ek & Hp & _ & Hh)|[(w & i & W & c & Ek & _ & _ & _ & _ & ->)|(w & i & W & Ek & _ & _ & _ & Hh)]].
    + split; [eapply head_eval_frame; eauto|]. eapply not_all_exited; eauto. destruct Hp; by subst.
    + split; [unfold wframe; cbn; repeat split; auto|]. eapply not_all_exited; eauto.
    + split; [|eapply not_all_exited; eauto]. eapply wframe_trans_setq; [reflexivity|].
      eapply head_eval_frame; eauto.
  - apply step_wake_inv in HS as [Ek ->]. split; [unfold wframe; cbn; repeat split; auto|].
    eapply not_all_exited; eauto.
  - apply step_start_inv in HS as (w & i & Ek & ->). split; [unfold wframe; cbn; repeat split; auto|].
    eapply not_all_exited; eauto.
  - apply step_end_inv in HS as (w & i & Ek & ->). split; [unfold wframe; cbn; repeat split; auto|].
    eapply not_all_exited; eauto.
Qed.

Lemma inv_wframe s s' : wframe s s' -> all_exited s = false -> inv s -> inv s'.
Proof.
  unfold wframe, inv. intros (E1 & E2 & E3 & E4 & Hq & _ & _) Hx. rewrite E1, E2, E3, E4, Hx.
  destruct (shut s), (svc s); intuition (try congruence).
Qed.

Lemma started_true s : started s = true -> svc s = Started.
Proof. unfold started. apply bool_decide_eq_true_1. Qed.

Lemma inv_step s l s' : inv s -> step s l = Some s' -> inv s'.
Proof.
  intros HI HS.
  destruct l as [p g c ok|p r|p|k rt r|k|k c|k c|ok| | | | | | |ok|n| |p ok|p sent];
    try (match type of HS with step _ ?l = _ =>
           destruct (worker_step_frame s l s' I HS) as [F X]; exact (inv_wframe _ _ F X HI) end).
  - (* LCheck *) unfold step, step_gen in HS. destruct (prods s !! p); [done|].
    destruct (bool_eq ok (started s)); [|done]. destruct ok; simplify_eq; exact HI.
  - (* LEnq *)
    apply step_enq_inv in HS as (g & c & _ & [(Eq & _ & ->)|[(q & w & W & Eq & _ & _ & _ & ->)|(q & Eq & _ & _ & ->)]]).
    + exact HI.
    + exact HI.
    + unfold inv in *; cbn. rewrite Eq in HI. unfold all_exited in *; cbn.
      destruct (shut s), (svc s); intuition (try congruence).
  - (* LSignal *) unfold step, step_gen in HS. destruct (prods s !! p) as [[|]|]; try done.
    destruct (tokens s <? n_waiting s)%nat; simplify_eq; exact HI.
  - (* LShutCAS *) unfold step, step_gen in HS. destruct (bool_eq ok (started s)) eqn:E; [|done].
    apply bool_eq_true in E. destruct ok; simplify_eq; [|exact HI]. symmetry in E. apply started_true in E.
    unfold inv in *; cbn. unfold all_exited in *; cbn. rewrite E in HI.
    destruct (shut s); intuition (try congruence).
  - (* LCloseNil *) unfold step, step_gen in HS. destruct (shut s) eqn:Es; try done. simplify_eq.
    unfold inv in *; cbn. rewrite Es in HI. intuition.
  - (* LBroadcast *) unfold step, step_gen in HS. destruct (shut s) eqn:Es; try done. simplify_eq.
    unfold inv in *; cbn. rewrite Es in HI. intuition.
  - (* LConnClose *) unfold step, step_gen in HS. destruct (shut s) eqn:Es; try done. simplify_eq.
    unfold inv in *; cbn. rewrite Es in HI. intuition.
  - (* LWgDone *) unfold step, step_gen in HS. destruct (shut s) eqn:Es; try done.
    destruct (all_exited s) eqn:Ex; [|done]. simplify_eq.
    unfold inv in *; cbn. rewrite Es in HI. unfold all_exited in *; cbn. intuition.
  - (* LClearConn *) unfold step, step_gen in HS. destruct (shut s) eqn:Es; try done. simplify_eq.
    unfold inv in *; cbn. rewrite Es in HI. unfold all_exited in *; cbn. intuition.
  - (* LStopped *) unfold step, step_gen in HS. destruct (shut s) eqn:Es; try done. simplify_eq.
    unfold inv in *; cbn. rewrite Es in HI. unfold all_exited in *; cbn. intuition lia.
  - (* LServeCAS *) unfold step, step_gen in HS.
    destruct (bool_eq ok (bool_decide (svc s = Stopped))) eqn:E; [|done].
    apply bool_eq_true in E. destruct ok; simplify_eq; [|exact HI]. symmetry in E.
    apply bool_decide_eq_true_1 in E.
    unfold inv in *; cbn. rewrite E in HI. destruct (shut s); intuition (try congruence).
  - (* LServeInit *) unfold step, step_gen in HS. destruct (svc s) eqn:E; try done.
    destruct (wq s) eqn:Ewq0; [done|]. destruct n as [|n]; [done|]. simplify_eq.
    unfold inv in *; cbn. destruct (shut s); intuition (try congruence); try lia.
  - (* LServeStarted *) unfold step, step_gen in HS. destruct (svc s) eqn:E; try done.
    destruct (wq s) as [q|] eqn:Eq; [|done]. simplify_eq.
    unfold inv in *; cbn. rewrite E in HI. destruct (shut s); intuition (try congruence).
  - (* LPubCheck *) unfold step, step_gen in HS. destruct (bool_decide (p ∈ pubs s)); [done|].
    destruct (bool_eq ok (started s)); [|done]. destruct ok; simplify_eq; exact HI.
  - (* LPubUse *) unfold step, step_gen in HS. destruct (bool_decide (p ∈ pubs s)); [|done].
    destruct (bool_eq sent (nc s)); [|done]. simplify_eq.
    unfold inv in *; cbn. unfold all_exited in *; cbn. rewrite orb_false_r. exact HI.
Qed.

Lemma inv_run tr : forall s s', inv s -> run s tr = Some s' -> inv s'.
Proof.
  induction tr as [|l tr IH]; intros s s' HI HR; cbn in HR.
  - by simplify_eq.
  - change (step_gen true s l) with (step s l) in HR. destruct (step s l) as [s1|] eqn:E; [|done].
    eapply IH; [|exact HR]. eapply inv_step; eauto.
Qed.

Lemma inv_reach tr s : run init tr = Some s -> inv s.
Proof. apply inv_run, inv_init. Qed.

(* consequences *)
Lemma inv_stopping s : inv s -> (svc s = Stopping <-> shut s <> SIdle).
Proof. unfold inv. intros [_ H]. destruct (shut s), (svc s); intuition congruence. Qed.
