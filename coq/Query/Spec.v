(* Vocabulary of the C15 statements (no proofs). *)
From Coq Require Import List NArith Bool.
From GoRes Require Export Query.Model.
Import ListNotations.

(* number of responses (pre-responses not counted) among the messages published on a reply subject *)
Fixpoint nresp (l : list pubmsg) : nat :=
  match l with
  | [] => O
  | PResp _ :: r => S (nresp r)
  | PPre _ :: r => nresp r
  end.

Definition is_error (r : resp) : bool := match r with RErr _ _ => true | _ => false end.

(* the one response among the published messages, if there is exactly one *)
Fixpoint the_resp (l : list pubmsg) : option resp :=
  match l with
  | [] => None
  | PResp r :: _ => Some r
  | PPre _ :: t => the_resp t
  end.

Fixpoint count_nil (l : list call) : nat :=
  match l with
  | [] => O
  | CNil :: r => S (count_nil r)
  | CReq _ :: r => count_nil r
  end.

(* the callback invocations of the query event in the order of the group queue: those made so far,
   then those still waiting *)
Definition cb_seq (s : qs) : list call := q_calls s ++ q_gq s.

(* what the request callbacks of a list of invocations publish *)
Fixpoint outs_of (ty : rtype) (l : list call) : list (N * list pubmsg) :=
  match l with
  | [] => []
  | CReq m :: r => (m_id m, handle ty m) :: outs_of ty r
  | CNil :: r => outs_of ty r
  end.

Definition reachable (c : cfg) (s : qs) : Prop := exists tr, run c init tr = Some s.
Definition reachable_v0 (c : cfg) (s : qs) : Prop := exists tr, run_v0 c init tr = Some s.

Definition n_listener (tr : list label) : nat := length (filter is_listener tr).
Definition is_accept (l : label) : bool := match l with LQArrive _ true => true | _ => false end.
Definition n_accept (tr : list label) : nat := length (filter is_accept tr).

Definition listener_only (tr : list label) : Prop := Forall (fun l => is_listener l = true) tr.

(* nothing was refused by runWith along the trace (the service stayed started) *)
Definition no_refusal (s : qs) : Prop := q_refused s = false.

(* the same two ghost fields read off the trace: requests accepted into the channel before the expiry,
   and whether runWith refused something *)
Fixpoint early_of (tr : list label) : list msg :=
  match tr with
  | [] => []
  | LQExpire :: _ => []
  | LQArrive m true :: r => m :: early_of r
  | _ :: r => early_of r
  end.
Definition is_refusal (l : label) : bool :=
  match l with LQForward false | LQDrain false | LQNil false => true | _ => false end.
Definition has_refusal (tr : list label) : bool := existsb is_refusal tr.

(* measure of the work the listener still has to do *)
Definition kappa (p : lpc) : nat :=
  match p with LNone => 4 | LHold _ => 4 | LIdle => 3 | LDrain => 2 | LNilPend => 1 | LExited => 0 end.
Definition mu (s : qs) : nat := 2 * length (q_ch s) + kappa (q_pc s).

(* the listener's way out once done is closed and nothing else happens *)
Definition drain_tr (n : nat) : list label := repeat (LQDrain true) n ++ [LQEmpty; LQNil true].
Definition exit_tr (s : qs) : list label :=
  match q_pc s with
  | LNone | LExited => []
  | LHold _ => LQForward true :: LQDone :: drain_tr (length (q_ch s))
  | LIdle => LQDone :: drain_tr (length (q_ch s))
  | LDrain => drain_tr (length (q_ch s))
  | LNilPend => [LQNil true]
  end.
