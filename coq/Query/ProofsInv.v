(* C15, the query event LTS: the invariant of reachable states. *)
From Coq Require Import List NArith Bool Lia.
From GoRes Require Import Query.Spec.
Import ListNotations.

Definition nn (s : qs) : nat := (count_nil (q_calls s) + count_nil (q_gq s))%nat.

Lemma count_nil_app : forall a b, count_nil (a ++ b) = (count_nil a + count_nil b)%nat.
Proof.
  induction a as [|x a IH]; intros b; [reflexivity|].
  destruct x; cbn [app count_nil]; rewrite IH; reflexivity.
Qed.

Lemma nn_seq : forall s, count_nil (cb_seq s) = nn s.
Proof. intros s. unfold cb_seq, nn. apply count_nil_app. Qed.

Lemma outs_of_app : forall ty a b, outs_of ty (a ++ b) = outs_of ty a ++ outs_of ty b.
Proof.
  induction a as [|x a IH]; intros b; [reflexivity|].
  destruct x; cbn [app outs_of]; rewrite IH; reflexivity.
Qed.

(* ---- pick ---- *)
Lemma pick_spec : forall r l x rest, pick r l = Some (x, rest) ->
  (forall y, In y l <-> y = x \/ In y rest) /\ count_nil l = (count_nil [x] + count_nil rest)%nat.
Proof.
  intros r. induction l as [|a l IH]; intros x rest H; cbn [pick] in H; [discriminate|].
  destruct (call_is r a) eqn:E.
  - injection H as <- <-. split.
    + intros y. cbn [In]. split; intros [A|A]; auto.
    + destruct a; cbn [count_nil]; lia.
  - destruct (pick r l) as [[y r']|] eqn:P; [|discriminate]. injection H as <- <-.
    destruct (IH y r' eq_refl) as [I C]. split.
    + intros z. cbn [In]. rewrite I. tauto.
    + destruct a, y; cbn [count_nil] in *; lia.
Qed.

(* what LQRun does, serial or not *)
Lemma step_run_inv : forall c s r s', step true c s (LQRun r) = Some s' ->
  exists x rest, s' = ran (c_ty c) s x rest /\
    (forall y, In y (q_gq s) <-> y = x \/ In y rest) /\
    count_nil (q_gq s) = (count_nil [x] + count_nil rest)%nat /\
    (c_serial c = true -> q_gq s = x :: rest).
Proof.
  intros c s r s' H. cbn [step] in H. destruct (c_serial c) eqn:S.
  - destruct (q_gq s) as [|x rest] eqn:G; [discriminate|].
    destruct (call_is r x); [|discriminate]. injection H as <-.
    exists x, rest. split; [reflexivity|]. split; [|split].
    + intros y. cbn [In]. split; intros [A|A]; auto.
    + destruct x; cbn [count_nil]; lia.
    + reflexivity.
  - destruct (pick r (q_gq s)) as [[x rest]|] eqn:P; [|discriminate]. injection H as <-.
    exists x, rest. destruct (pick_spec _ _ _ _ P) as [I C]. split; [reflexivity|]. split; [exact I|]. split; [exact C|].
    discriminate.
Qed.

Record Inv (c : cfg) (s : qs) : Prop := {
  i_none : q_sub s = None -> s = init;
  i_fail : q_sub s = Some false ->
           q_calls s = [CNil] /\ q_gq s = [] /\ q_pc s = LNone /\ q_pub s = false /\ q_outs s = [] /\ q_ch s = [] /\ q_done s = false;
  i_pubf : q_pub s = false -> q_pc s = LNone /\ q_done s = false;
  i_pubt : q_pub s = true -> q_pc s <> LNone /\ q_sub s = Some true;
  i_done : q_pc s = LDrain \/ q_pc s = LNilPend \/ q_pc s = LExited -> q_done s = true;
  i_cnt0 : q_sub s <> Some false -> q_pc s <> LExited -> nn s = 0%nat;
  i_cnt1 : q_pc s = LExited -> (nn s <= 1)%nat /\ (q_refused s = false -> nn s = 1%nat);
  i_last : c_serial c = true -> nn s = 1%nat -> exists l, cb_seq s = l ++ [CNil];
  i_early : q_refused s = false -> forall m, In m (q_early s) ->
            In m (q_ch s) \/ q_pc s = LHold m \/ In (CReq m) (cb_seq s);
  i_early2 : q_refused s = false -> q_pc s = LNilPend \/ q_pc s = LExited ->
             forall m, In m (q_early s) -> In (CReq m) (cb_seq s);
  i_outs : q_outs s = outs_of (c_ty c) (q_calls s)
}.

Lemma inv_init : forall c, Inv c init.
Proof.
  intros c. constructor; cbn; try discriminate; try tauto; intros; try discriminate; try tauto.
  all: try (destruct H as [H|[H|H]]; discriminate).
  all: try (destruct H0 as [H0|H0]; discriminate).
  all: try (split; [discriminate|reflexivity]).
  all: try reflexivity.
Qed.

Ltac inv_step H :=
  cbn [step] in H;
  repeat match type of H with
  | context [match ?x with _ => _ end] => destruct x eqn:?; try discriminate H
  | context [if ?x then _ else _] => destruct x eqn:?; try discriminate H
  end;
  try (injection H as <-).

Ltac ors :=
  repeat match goal with
  | H : _ \/ _ |- _ => destruct H as [H|H]
  end.

Ltac fin :=
  unfold set_pc, set_ch, enqueue, cb_seq, nn in *; cbn [q_sub q_pub q_ch q_done q_pc q_gq q_calls q_outs q_early q_refused] in *;
  intros; subst; try discriminate; try congruence; try tauto; try lia.

Lemma inv_step_sub : forall c s ok s', Inv c s -> step true c s (LQSub ok) = Some s' -> Inv c s'.
Proof.
  intros c s ok s' I H. inv_step H.
  - pose proof (i_none _ _ I Heqo) as E. subst s. constructor; fin; cbn in *; fin; ors; fin.
  - pose proof (i_none _ _ I Heqo) as E. subst s. constructor; fin; cbn in *; fin; ors; fin.
    exists []. reflexivity.
Qed.

Ltac sat :=
  repeat match goal with
  | H : ?A -> ?B |- _ =>
    match type of A with
    | Prop =>
      let a := fresh in
      assert (a : A) by (clear H; first [assumption | congruence | (left; congruence) | (right; left; congruence)
                                         | (right; right; congruence) | (right; congruence)]);
      specialize (H a); clear a
    end
  end.
Ltac use_in :=
  repeat match goal with
  | E : forall m, In m (q_early ?s) -> _, M : In ?x (q_early ?s) |- _ =>
    let X := fresh in pose proof (E x M) as X; clear E
  end.
Ltac crush1 := sat; rewrite ?in_app_iff in *; cbn [In] in *; rewrite ?count_nil_app in *; cbn [count_nil] in *; try (intuition (subst; try congruence; try lia)).
Ltac crush := crush1; use_in; crush1.

Lemma inv_step_publish : forall c s s', Inv c s -> step true c s LQPublish = Some s' -> Inv c s'.
Proof.
  intros c s s' I H. inv_step H. destruct I. constructor; fin; ors; fin; crush.
Qed.

Lemma inv_step_arrive : forall c s m acc s', Inv c s -> step true c s (LQArrive m acc) = Some s' -> Inv c s'.
Proof.
  intros c s m acc s' I H. inv_step H; [| |exact I]; destruct I; constructor; fin; ors; fin; crush.
Qed.

Lemma inv_step_take : forall c s s', Inv c s -> step true c s LQTake = Some s' -> Inv c s'.
Proof.
  intros c s s' I H. inv_step H. destruct I; constructor; fin; ors; fin; crush.
  match goal with E : q_ch s = _ |- _ => rewrite E in * end. cbn [In] in *. intuition (subst; auto).
Qed.

Lemma inv_step_forward : forall c s ok s', Inv c s -> step true c s (LQForward ok) = Some s' -> Inv c s'.
Proof.
  intros c s ok s' I H. inv_step H. destruct I; destruct ok; constructor; fin; ors; fin; crush.
Qed.

Lemma inv_step_expire : forall c s s', Inv c s -> step true c s LQExpire = Some s' -> Inv c s'.
Proof.
  intros c s s' I H. inv_step H. destruct I; constructor; fin; ors; fin; crush.
Qed.

Lemma inv_step_done : forall c s s', Inv c s -> step true c s LQDone = Some s' -> Inv c s'.
Proof.
  intros c s s' I H. inv_step H. destruct I; constructor; fin; ors; fin; crush.
Qed.

Lemma inv_step_drain : forall c s ok s', Inv c s -> step true c s (LQDrain ok) = Some s' -> Inv c s'.
Proof.
  intros c s ok s' I H. inv_step H. destruct I; destruct ok; constructor; fin; ors; fin; crush.
  match goal with E : q_ch s = _ |- _ => rewrite E in * end. cbn [In] in *. intuition (subst; auto).
Qed.

Lemma inv_step_empty : forall c s s', Inv c s -> step true c s LQEmpty = Some s' -> Inv c s'.
Proof.
  intros c s s' I H. inv_step H. destruct I; constructor; fin; ors; fin; crush.
  match goal with E : q_ch s = _ |- _ => rewrite E in * end. cbn [In] in *. intuition (subst; auto).
Qed.

Lemma inv_step_nil : forall c s ok s', Inv c s -> step true c s (LQNil ok) = Some s' -> Inv c s'.
Proof.
  intros c s ok s' I H. inv_step H. destruct I; destruct ok; constructor; fin; ors; fin; crush.
  exists (q_calls s ++ q_gq s). rewrite app_assoc. reflexivity.
Qed.

Lemma inv_step_run : forall c s r s', Inv c s -> step true c s (LQRun r) = Some s' -> Inv c s'.
Proof.
  intros c s r s' I H. destruct (step_run_inv _ _ _ _ H) as (x & rest & -> & IN & CN & SER). clear H.
  assert (INX : In x (q_gq s)) by (apply IN; left; reflexivity).
  assert (NN : nn (ran (c_ty c) s x rest) = nn s).
  { unfold nn, ran. cbn [q_calls q_gq]. rewrite count_nil_app, CN. lia. }
  assert (INS : forall y, In y (cb_seq (ran (c_ty c) s x rest)) <-> In y (cb_seq s)).
  { intros y. unfold cb_seq, ran. cbn [q_calls q_gq]. rewrite !in_app_iff, IN. cbn [In]. intuition (subst; auto). }
  destruct I. constructor.
  - intros E. cbn [ran q_sub] in E. rewrite (i_none0 E) in INX. destruct INX.
  - intros E. cbn [ran q_sub] in E. destruct (i_fail0 E) as (_ & G & _). rewrite G in INX. destruct INX.
  - exact i_pubf0.
  - exact i_pubt0.
  - exact i_done0.
  - intros A B. rewrite NN. apply i_cnt2; assumption.
  - intros A. rewrite NN. apply i_cnt3; assumption.
  - intros A B. rewrite NN in B. destruct (i_last0 A B) as [l E]. exists l.
    unfold cb_seq, ran in *. cbn [q_calls q_gq]. rewrite (SER A) in E. rewrite <- app_assoc. exact E.
  - intros A m M. cbn [ran q_refused q_early q_ch q_pc] in *. rewrite INS. apply i_early0; assumption.
  - intros A B m M. cbn [ran q_refused q_early q_ch q_pc] in *. rewrite INS. apply i_early3; assumption.
  - cbn [ran q_outs q_calls]. rewrite outs_of_app, i_outs0. destruct x; cbn [outs_of]; [reflexivity|symmetry; apply app_nil_r].
Qed.

Lemma inv_step : forall c s l s', Inv c s -> step true c s l = Some s' -> Inv c s'.
Proof.
  intros c s l s' I H. destruct l.
  - eapply inv_step_sub; eassumption.
  - eapply inv_step_publish; eassumption.
  - eapply inv_step_arrive; eassumption.
  - eapply inv_step_take; eassumption.
  - eapply inv_step_forward; eassumption.
  - eapply inv_step_expire; eassumption.
  - eapply inv_step_done; eassumption.
  - eapply inv_step_drain; eassumption.
  - eapply inv_step_empty; eassumption.
  - eapply inv_step_nil; eassumption.
  - eapply inv_step_run; eassumption.
Qed.

Lemma inv_run_from : forall c tr s s', Inv c s -> run c s tr = Some s' -> Inv c s'.
Proof.
  intros c tr. induction tr as [|l tr IH]; intros s s' I H; cbn [run run_gen] in H.
  - injection H as <-. exact I.
  - unfold run in *. cbn [run_gen] in H. destruct (step true c s l) as [s1|] eqn:E; [|discriminate].
    eapply IH; [eapply inv_step; eassumption|exact H].
Qed.

Lemma inv_reachable : forall c s, reachable c s -> Inv c s.
Proof. intros c s [tr H]. eapply inv_run_from; [apply inv_init|exact H]. Qed.
