(* C15, one query request: exactly one response whatever the callback does. *)
From Coq Require Import List NArith Bool Lia.
From GoRes Require Import Query.Spec.
Import ListNotations.

Definition rinv (s : rst) : Prop := nresp (r_out s) = if r_replied s then 1%nat else 0%nat.

Lemma nresp_app : forall a b, nresp (a ++ b) = (nresp a + nresp b)%nat.
Proof.
  induction a as [|x a IH]; intros b; [reflexivity|].
  destruct x; cbn [app nresp]; rewrite IH; reflexivity.
Qed.

Lemma rinv_rs0 : rinv rs0.
Proof. reflexivity. Qed.

Lemma reply_inv : forall s r, rinv s -> rinv (reply s r) /\ r_replied (reply s r) = true.
Proof.
  intros s r H. unfold reply, rinv in *. destruct (r_replied s) eqn:E.
  - rewrite E. split; [exact H|reflexivity].
  - cbn [r_replied r_out]. rewrite nresp_app, H. split; reflexivity.
Qed.

Lemma add_ev_inv : forall s e ok, rinv s -> rinv (add_ev s e ok).
Proof. intros s e ok H. exact H. Qed.

Lemma pre_inv : forall s ms, rinv s -> rinv (pre s ms).
Proof.
  intros s ms H. unfold rinv, pre in *. cbn [r_replied r_out]. rewrite nresp_app, H.
  cbn [nresp]. lia.
Qed.

Lemma act_inv : forall ty s a, rinv s ->
  match act ty s a with Cont s' => rinv s' | Panic s' _ => rinv s' end.
Proof.
  intros ty s a H. destruct a as [v m|v m| |[m|]|e|neg ms|empty v m|v neg idx m|neg idx|p|]; cbn [act].
  - destruct ty; try exact H; apply reply_inv; exact H.
  - destruct ty; try exact H; apply reply_inv; exact H.
  - apply reply_inv; exact H.
  - apply reply_inv; exact H.
  - apply reply_inv; exact H.
  - apply reply_inv; exact H.
  - destruct neg; [exact H|apply pre_inv; exact H].
  - destruct ty; try exact H; destruct empty; try exact H; apply add_ev_inv; exact H.
  - destruct ty; try exact H; destruct neg; try exact H; apply add_ev_inv; exact H.
  - destruct ty; try exact H; destruct neg; try exact H; apply add_ev_inv; exact H.
  - exact H.
  - exact H.
Qed.

Lemma run_script_inv : forall ty sc s, rinv s ->
  match run_script ty s sc with Cont s' => rinv s' | Panic s' _ => rinv s' end.
Proof.
  intros ty sc. induction sc as [|a sc IH]; intros s H; cbn [run_script]; [exact H|].
  pose proof (act_inv ty s a H) as Ha. destruct (act ty s a) as [s'|s' v]; [apply IH; exact Ha|exact Ha].
Qed.

Lemma exec_cb_inv : forall ty sc, rinv (exec_cb ty sc).
Proof.
  intros ty sc. unfold exec_cb. pose proof (run_script_inv ty sc rs0 rinv_rs0) as H.
  destruct (run_script ty rs0 sc) as [s|s v]; [exact H|]. apply reply_inv; exact H.
Qed.

Lemma finish_inv : forall s, rinv s -> rinv (finish s) /\ r_replied (finish s) = true.
Proof.
  intros s H. unfold finish. destruct (r_replied s) eqn:E; [split; [exact H|exact E]|].
  destruct (r_evs s); apply reply_inv; exact H.
Qed.

Lemma handle_one : forall ty m, nresp (handle ty m) = 1%nat.
Proof.
  intros ty m. unfold handle. destruct (m_pl m); try reflexivity.
  destruct (finish_inv _ (exec_cb_inv ty (m_script m))) as [H R]. unfold rinv in H. rewrite R in H. exact H.
Qed.

Lemma nresp_the_resp : forall l, nresp l = 1%nat -> exists r, the_resp l = Some r.
Proof.
  induction l as [|x l IH]; intros H; [discriminate|].
  destruct x as [r|ms]; cbn [the_resp]; [exists r; reflexivity|]. apply IH; exact H.
Qed.

(* one response; an error for a malformed payload or a missing query *)
Lemma query_one_response_pf : forall ty m,
  nresp (handle ty m) = 1%nat /\
  (exists r, the_resp (handle ty m) = Some r) /\
  (m_pl m = PMalformed -> handle ty m = [PResp (RErr CInternal MMalformed)]) /\
  (m_pl m = PMissing -> handle ty m = [PResp (RErr CInternal MMissingQuery)]).
Proof.
  intros ty m. split; [apply handle_one|]. split; [apply nresp_the_resp, handle_one|].
  split; intros E; unfold handle; rewrite E; reflexivity.
Qed.

(* which response: a callback that neither replies nor panics gets its accumulated events *)
Lemma the_resp_app_pre : forall a r, nresp a = 0%nat -> the_resp (a ++ [PResp r]) = Some r.
Proof.
  induction a as [|x a IH]; intros r H; [reflexivity|].
  destruct x; [discriminate|]. cbn [app the_resp]. apply IH; exact H.
Qed.

Lemma query_events_when_silent_pf : forall ty m s,
  m_pl m = PQuery -> run_script ty rs0 (m_script m) = Cont s -> r_replied s = false ->
  the_resp (handle ty m) =
    Some (match r_evs s with [] => REvents [] | evs => if r_evok s then REvents evs else RErr CInternal MStd end).
Proof.
  intros ty m s E R NR. unfold handle, exec_cb. rewrite E, R. unfold finish. rewrite NR.
  pose proof (run_script_inv ty (m_script m) rs0 rinv_rs0) as H. rewrite R in H. unfold rinv in H. rewrite NR in H.
  destruct (r_evs s); unfold reply; rewrite NR; cbn [r_out]; apply the_resp_app_pre; exact H.
Qed.

