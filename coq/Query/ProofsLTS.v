(* C15, the query event LTS: the theorems of Props/C15.v. *)
From Coq Require Import List NArith Bool Lia PeanoNat.
From GoRes Require Import Query.Spec Query.ProofsReq Query.ProofsInv.
Import ListNotations.

Lemma run_cons : forall c s l tr, run c s (l :: tr) =
  match step true c s l with Some s' => run c s' tr | None => None end.
Proof. reflexivity. Qed.

Lemma run_app : forall c a b s, run c s (a ++ b) =
  match run c s a with Some s' => run c s' b | None => None end.
Proof.
  intros c a. induction a as [|l a IH]; intros b s; [reflexivity|].
  cbn [app]. rewrite !run_cons. destruct (step true c s l); [apply IH|reflexivity].
Qed.

(* ---- ghost fields = functions of the trace ---- *)
Lemma step_done_mono : forall c s l s', step true c s l = Some s' -> q_done s = true ->
  q_done s' = true /\ q_early s' = q_early s.
Proof.
  intros c s l s' H D. destruct l; inv_step H; fin; try (destruct ok; fin).
Qed.

Lemma run_done_mono : forall c tr s s', run c s tr = Some s' -> q_done s = true -> q_early s' = q_early s.
Proof.
  intros c tr. induction tr as [|l tr IH]; intros s s' H D.
  - injection H as <-. reflexivity.
  - rewrite run_cons in H. destruct (step true c s l) as [s1|] eqn:E; [|discriminate].
    destruct (step_done_mono _ _ _ _ E D) as [D1 E1]. rewrite (IH _ _ H D1). exact E1.
Qed.

Lemma run_early : forall c tr s s', run c s tr = Some s' -> q_done s = false ->
  q_early s' = q_early s ++ early_of tr.
Proof.
  intros c tr. induction tr as [|l tr IH]; intros s s' H D.
  - injection H as <-. symmetry. apply app_nil_r.
  - rewrite run_cons in H. destruct (step true c s l) as [s1|] eqn:E; [|discriminate].
    destruct l; try (assert (X : q_done s1 = false /\ q_early s1 = q_early s)
      by (inv_step E; fin; try (destruct ok; fin); split; fin);
      destruct X as [D1 E1]; cbn [early_of]; rewrite (IH _ _ H D1), E1; reflexivity).
    + (* arrive *) inv_step E; fin.
      * cbn [early_of]. rewrite (IH _ _ H); fin. rewrite <- app_assoc. reflexivity.
      * cbn [early_of]. rewrite (IH _ _ H D). reflexivity.
    + (* expire *) cbn [early_of]. rewrite app_nil_r.
      assert (X : q_done s1 = true /\ q_early s1 = q_early s) by (inv_step E; fin; split; fin).
      destruct X as [D1 E1]. rewrite (run_done_mono _ _ _ _ H D1). exact E1.
Qed.

Lemma run_refused : forall c tr s s', run c s tr = Some s' -> q_refused s' = q_refused s || has_refusal tr.
Proof.
  intros c tr. induction tr as [|l tr IH]; intros s s' H.
  - injection H as <-. symmetry. apply orb_false_r.
  - rewrite run_cons in H. destruct (step true c s l) as [s1|] eqn:E; [|discriminate].
    rewrite (IH _ _ H). unfold has_refusal. cbn [existsb]. rewrite orb_assoc. f_equal.
    destruct l; try (destruct (step_run_inv _ _ _ _ E) as (x & rest & -> & _); cbn; symmetry; apply orb_false_r);
      inv_step E; fin; cbn [is_refusal]; try (destruct ok; fin); cbn [q_refused]; rewrite ?orb_false_r, ?orb_true_r; reflexivity.
Qed.

Lemma early_of_init : forall c tr s, run c init tr = Some s -> q_early s = early_of tr.
Proof. intros c tr s H. apply (run_early c tr init s H). reflexivity. Qed.
Lemma refused_of_init : forall c tr s, run c init tr = Some s -> q_refused s = has_refusal tr.
Proof. intros c tr s H. apply (run_refused c tr init s H). Qed.

(* ---- every request callback that runs publishes exactly one response ---- *)
Lemma outs_of_handle : forall ty l id out, In (id, out) (outs_of ty l) ->
  exists m, In (CReq m) l /\ id = m_id m /\ out = handle ty m.
Proof.
  intros ty l id out. induction l as [|x l IH]; intros H; [destruct H|].
  destruct x as [m|]; cbn [outs_of In] in H.
  - destruct H as [H|H].
    + injection H as <- <-. exists m. split; [left; reflexivity|split; reflexivity].
    + destruct (IH H) as (m' & A & B). exists m'. split; [right; exact A|exact B].
  - destruct (IH H) as (m' & A & B). exists m'. split; [right; exact A|exact B].
Qed.

Lemma outs_of_in : forall ty l m, In (CReq m) l -> In (m_id m, handle ty m) (outs_of ty l).
Proof.
  intros ty l m. induction l as [|x l IH]; intros H; [destruct H|].
  destruct H as [H|H].
  - subst x. left. reflexivity.
  - destruct x; cbn [outs_of]; [right|]; apply IH; exact H.
Qed.

Lemma lts_one_response_pf : forall c tr s, run c init tr = Some s ->
  q_outs s = outs_of (c_ty c) (q_calls s) /\
  (forall id out, In (id, out) (q_outs s) ->
     nresp out = 1%nat /\ exists m, In (CReq m) (q_calls s) /\ id = m_id m /\ out = handle (c_ty c) m).
Proof.
  intros c tr s H. pose proof (inv_reachable c s (ex_intro _ tr H)) as I.
  split; [apply (i_outs _ _ I)|]. intros id out IN. rewrite (i_outs _ _ I) in IN.
  destruct (outs_of_handle _ _ _ _ IN) as (m & A & B & C). split.
  - subst out. apply handle_one.
  - exists m. auto.
Qed.

(* ---- at most one nil call, nothing after it, exactly one after the listener has left ---- *)
Lemma nil_last_unique : forall l l1 l2, l ++ [CNil] = l1 ++ CNil :: l2 -> count_nil (l ++ [CNil]) = 1%nat ->
  l2 = [] /\ l1 = l.
Proof.
  intros l l1 l2 E C. destruct l2 as [|z l2] using rev_ind.
  - split; [reflexivity|]. change (l1 ++ [CNil]) with (l1 ++ [CNil]) in E. apply app_inj_tail in E. destruct E; auto.
  - exfalso. clear IHl2. rewrite app_comm_cons, app_assoc in E. apply app_inj_tail in E. destruct E as [E Z].
    subst z. rewrite E in C. rewrite !count_nil_app in C. cbn [count_nil] in C. lia.
Qed.

Lemma nil_once_last_pf : forall c tr s, run c init tr = Some s ->
  (count_nil (q_calls s) + count_nil (q_gq s) <= 1)%nat /\
  (c_serial c = true -> forall l1 l2, cb_seq s = l1 ++ CNil :: l2 -> l2 = [] /\ count_nil l1 = 0%nat) /\
  (q_sub s = Some true -> q_pc s = LExited -> has_refusal tr = false -> count_nil (cb_seq s) = 1%nat).
Proof.
  intros c tr s H. pose proof (inv_reachable c s (ex_intro _ tr H)) as I.
  assert (LE : (nn s <= 1)%nat).
  { destruct (q_sub s) as [[|]|] eqn:S.
    - assert (D : q_pc s = LExited \/ q_pc s <> LExited) by (destruct (q_pc s); auto; right; discriminate).
      destruct D as [D|D]; [apply (i_cnt1 _ _ I D)|]. rewrite (i_cnt0 _ _ I); [lia|congruence|exact D].
    - destruct (i_fail _ _ I S) as (A & B & _). unfold nn. rewrite A, B. cbn. lia.
    - rewrite (i_none _ _ I S). cbn. lia. }
  split; [exact LE|]. split.
  - intros SER l1 l2 E. assert (N1 : nn s = 1%nat).
    { rewrite <- nn_seq in *. rewrite E in *. rewrite count_nil_app in *. cbn [count_nil] in *. lia. }
    destruct (i_last _ _ I SER N1) as [l EL]. rewrite EL in E.
    assert (C : count_nil (l ++ [CNil]) = 1%nat) by (rewrite <- EL, nn_seq; exact N1).
    destruct (nil_last_unique _ _ _ E C) as [A B]. split; [exact A|]. subst l1.
    rewrite count_nil_app in C. cbn [count_nil] in C. lia.
  - intros S P R. rewrite nn_seq. apply (i_cnt1 _ _ I P). rewrite (refused_of_init _ _ _ H). exact R.
Qed.

(* ---- no request received before the expiry is lost ---- *)
Lemma no_request_dropped_pf : forall c tr s m, run c init tr = Some s -> has_refusal tr = false ->
  In m (early_of tr) ->
  (In m (q_ch s) \/ q_pc s = LHold m \/ In (CReq m) (cb_seq s)) /\
  (q_pc s = LNilPend \/ q_pc s = LExited -> In (CReq m) (cb_seq s)) /\
  (q_pc s = LExited -> c_serial c = true -> exists l, cb_seq s = l ++ [CNil] /\ In (CReq m) l) /\
  (q_pc s = LExited -> q_gq s = [] -> In (m_id m, handle (c_ty c) m) (q_outs s)).
Proof.
  intros c tr s m H R M. pose proof (inv_reachable c s (ex_intro _ tr H)) as I.
  rewrite <- (refused_of_init _ _ _ H) in R. rewrite <- (early_of_init _ _ _ H) in M.
  split; [apply (i_early _ _ I R m M)|]. split; [intros P; apply (i_early2 _ _ I R P m M)|]. split.
  - intros P SER. pose proof (i_early2 _ _ I R (or_intror P) m M) as IN.
    destruct (i_cnt1 _ _ I P) as [_ N1]. destruct (i_last _ _ I SER (N1 R)) as [l E]. exists l. split; [exact E|].
    rewrite E in IN. apply in_app_iff in IN. destruct IN as [IN|[IN|[]]]; [exact IN|discriminate].
  - intros P G. pose proof (i_early2 _ _ I R (or_intror P) m M) as IN. unfold cb_seq in IN. rewrite G, app_nil_r in IN.
    rewrite (i_outs _ _ I). apply outs_of_in. exact IN.
Qed.

(* ---- release: the listener leaves, in a bounded number of steps, and never comes back ---- *)
Lemma drain_run : forall c ch s, q_pc s = LDrain -> q_ch s = ch ->
  exists s', run c s (drain_tr (length ch)) = Some s' /\ q_pc s' = LExited /\ q_ch s' = [].
Proof.
  intros c ch. induction ch as [|m ch IH]; intros s P C.
  - unfold drain_tr. cbn [length repeat app]. rewrite !run_cons. cbn [step]. rewrite P, C.
    cbn [step set_pc q_pc enqueue]. eexists. split; [reflexivity|]. split; [reflexivity|exact C].
  - unfold drain_tr in *. cbn [length repeat app]. rewrite run_cons. cbn [step]. rewrite P, C.
    apply IH; [exact P|reflexivity].
Qed.

Lemma released_progress_pf : forall c s, q_done s = true -> q_pc s <> LNone ->
  listener_only (exit_tr s) /\
  (length (exit_tr s) <= 2 * length (q_ch s) + 4)%nat /\
  exists s', run c s (exit_tr s) = Some s' /\ q_pc s' = LExited.
Proof.
  intros c s D P.
  assert (LO : forall n, listener_only (drain_tr n)).
  { intros n. unfold listener_only, drain_tr. apply Forall_app. split.
    - induction n; cbn [repeat]; constructor; auto.
    - repeat constructor. }
  assert (LN : forall n, length (drain_tr n) = (n + 2)%nat).
  { intros n. unfold drain_tr. rewrite app_length, repeat_length. reflexivity. }
  unfold exit_tr. destruct (q_pc s) eqn:E.
  - congruence.
  - split; [constructor; [reflexivity|apply LO]|]. split; [cbn [length]; rewrite LN; lia|].
    rewrite run_cons. cbn [step]. rewrite E, D.
    destruct (drain_run c (q_ch s) (set_pc s LDrain) eq_refl eq_refl) as (s' & R & X & _). exists s'. split; [exact R|exact X].
  - split; [constructor; [reflexivity|constructor; [reflexivity|apply LO]]|]. split; [cbn [length]; rewrite LN; lia|].
    rewrite run_cons. cbn [step]. rewrite E.
    set (s1 := set_pc (enqueue s true (CReq m)) LIdle).
    assert (S1 : step true c s1 LQDone = Some (set_pc s1 LDrain)).
    { cbn [step]. unfold s1. cbn [set_pc enqueue q_pc q_done]. rewrite D. reflexivity. }
    rewrite run_cons, S1.
    destruct (drain_run c (q_ch s) (set_pc s1 LDrain) eq_refl eq_refl) as (s' & R & X & _).
    exists s'. split; [exact R|exact X].
  - split; [apply LO|]. split; [rewrite LN; lia|].
    destruct (drain_run c (q_ch s) s E eq_refl) as (s' & R & X & _). exists s'. split; [exact R|exact X].
  - split; [repeat constructor|]. split; [cbn [length]; lia|].
    rewrite run_cons. cbn [step]. rewrite E. eexists. split; [reflexivity|reflexivity].
  - split; [constructor|]. split; [cbn [length]; lia|]. exists s. split; [reflexivity|exact E].
Qed.

Lemma step_mu : forall c s l s', step true c s l = Some s' ->
  ((if is_listener l then 1 else 0) + mu s' <= mu s + (if is_accept l then 2 else 0))%nat.
Proof.
  intros c s l s' H. unfold mu.
  destruct l; inv_step H; fin; try (destruct ok; fin); cbn [is_listener is_accept kappa length q_ch q_pc];
    rewrite ?app_length; cbn [length];
    repeat match goal with E : q_pc s = _ |- _ => rewrite E; clear E end;
    repeat match goal with E : q_ch s = _ |- _ => rewrite E; clear E end;
    cbn [kappa length]; try lia.
  all: unfold ran; cbn [q_ch q_pc]; lia.
Qed.

Lemma run_mu : forall c tr s s', run c s tr = Some s' ->
  (n_listener tr + mu s' <= mu s + 2 * n_accept tr)%nat.
Proof.
  intros c tr. induction tr as [|l tr IH]; intros s s' H.
  - injection H as <-. cbn. lia.
  - rewrite run_cons in H. destruct (step true c s l) as [s1|] eqn:E; [|discriminate].
    pose proof (step_mu _ _ _ _ E) as M. pose proof (IH _ _ H) as R.
    unfold n_listener, n_accept in *. cbn [filter]. destruct (is_listener l), (is_accept l); cbn [length]; lia.
Qed.

Lemma released_bound_pf : forall c s tr s', run c s tr = Some s' ->
  (n_listener tr <= 2 * (length (q_ch s) + n_accept tr) + 4)%nat.
Proof.
  intros c s tr s' H. pose proof (run_mu _ _ _ _ H) as M. unfold mu in M.
  assert (K : (kappa (q_pc s) <= 4)%nat) by (destruct (q_pc s); cbn; lia). lia.
Qed.

Lemma exited_step : forall c s l s', Inv c s -> q_pc s = LExited -> step true c s l = Some s' ->
  is_listener l = false /\ q_pc s' = LExited /\ (exists extra, q_ch s' = q_ch s ++ extra) /\
  (c_serial c = true -> cb_seq s' = cb_seq s) /\ nn s' = nn s /\ (forall y, In y (cb_seq s') <-> In y (cb_seq s)).
Proof.
  intros c s l s' I P H.
  assert (PT : q_pub s = true).
  { destruct (q_pub s) eqn:E; [reflexivity|]. destruct (i_pubf _ _ I E) as [X _]. congruence. }
  destruct (i_pubt _ _ I PT) as [_ S].
  destruct l; try (inv_step H; fin; fail).
  - (* arrive *) inv_step H; fin; (split; [reflexivity|]); (split; [assumption|]).
    + split; [exists [m]; reflexivity|]. repeat split; auto.
    + split; [exists [m]; reflexivity|]. repeat split; auto.
    + split; [exists []; symmetry; apply app_nil_r|]. repeat split; auto.
  - (* expire *) inv_step H; fin. repeat split; auto. exists []. symmetry. apply app_nil_r.
  - (* run *) destruct (step_run_inv _ _ _ _ H) as (x & rest & -> & IN & CN & SER).
    split; [reflexivity|]. split; [exact P|]. split; [exists []; symmetry; apply app_nil_r|].
    split; [|split].
    + intros A. unfold cb_seq, ran. cbn [q_calls q_gq]. rewrite (SER A), <- app_assoc. reflexivity.
    + unfold nn, ran. cbn [q_calls q_gq]. rewrite count_nil_app, CN. lia.
    + intros y. unfold cb_seq, ran. cbn [q_calls q_gq]. rewrite !in_app_iff, IN. cbn [In]. intuition (subst; auto).
Qed.

Lemma released_final_pf : forall c s, reachable c s -> q_pc s = LExited ->
  (forall l, is_listener l = true -> step true c s l = None) /\
  (forall tr s', run c s tr = Some s' ->
     q_pc s' = LExited /\ n_listener tr = 0%nat /\ (exists extra, q_ch s' = q_ch s ++ extra) /\
     (c_serial c = true -> cb_seq s' = cb_seq s) /\
     count_nil (cb_seq s') = count_nil (cb_seq s) /\ (forall y, In y (cb_seq s') <-> In y (cb_seq s))).
Proof.
  intros c s R P. pose proof (inv_reachable _ _ R) as I. split.
  - intros l L. destruct (step true c s l) as [s'|] eqn:E; [|reflexivity].
    destruct (exited_step _ _ _ _ I P E) as [X _]. congruence.
  - intros tr. revert s R P I. induction tr as [|l tr IH]; intros s R P I s' H.
    + injection H as <-. split; [exact P|]. split; [reflexivity|]. split; [exists []; symmetry; apply app_nil_r|].
      split; [reflexivity|]. split; [reflexivity|tauto].
    + rewrite run_cons in H. destruct (step true c s l) as [s1|] eqn:E; [|discriminate].
      destruct (exited_step _ _ _ _ I P E) as (L & P1 & [e1 C1] & S1 & N1 & I1).
      assert (R1 : reachable c s1).
      { destruct R as [t0 R]. exists (t0 ++ [l]). rewrite run_app, R, run_cons, E. reflexivity. }
      destruct (IH s1 R1 P1 (inv_step _ _ _ _ I E) s' H) as (P2 & L2 & [e2 C2] & S2 & N2 & I2).
      split; [exact P2|]. split; [unfold n_listener in *; cbn [filter]; rewrite L; exact L2|].
      split; [exists (e1 ++ e2); rewrite C2, C1, app_assoc; reflexivity|].
      split; [intros A; rewrite (S2 A); apply (S1 A)|].
      split; [rewrite N2, !nn_seq; exact N1|]. intros y. rewrite I2. apply I1.
Qed.

(* ---- a failed subscription: one synchronous nil call, nothing else, ever ---- *)
Definition failed_state : qs := QS (Some false) false [] false LNone [] [CNil] [] [] false.

Lemma failed_sub_pf : forall c tr s, run c init (LQSub false :: tr) = Some s ->
  tr = [] /\ s = failed_state.
Proof.
  intros c tr s H. rewrite run_cons in H. cbn in H. fold failed_state in H.
  destruct tr as [|l tr]; [injection H as <-; split; reflexivity|].
  exfalso. rewrite run_cons in H.
  assert (D : step true c failed_state l = None) by (destruct l; cbn; try reflexivity; destruct (c_serial c); reflexivity).
  rewrite D in H. discriminate.
Qed.

(* ---- the code before the fix ---- *)
Definition v0_pc_ok (p : lpc) : Prop := match p with LNone | LIdle | LHold _ => True | _ => False end.

Lemma v0_step_pc : forall c s l s', step false c s l = Some s' -> v0_pc_ok (q_pc s) -> v0_pc_ok (q_pc s').
Proof.
  intros c s l s' H P. destruct l; inv_step H; fin; try (destruct ok; fin); cbn [v0_pc_ok q_pc] in *; auto;
    repeat match goal with E : q_pc s = _ |- _ => rewrite E in P end; cbn [v0_pc_ok] in P; auto.
Qed.

Lemma listener_leak_v0_pf : forall c tr s, run_v0 c init tr = Some s -> q_pc s <> LExited.
Proof.
  intros c tr s H. assert (P : v0_pc_ok (q_pc s)).
  { revert H. assert (P0 : v0_pc_ok (q_pc init)) by exact I. revert P0. generalize init.
    induction tr as [|l tr IH]; intros s0 P0 H.
    - injection H as <-. exact P0.
    - unfold run_v0 in *. cbn [run_gen] in H. destruct (step false c s0 l) as [s1|] eqn:E; [|discriminate].
      apply (IH s1); [eapply v0_step_pc; eassumption|exact H]. }
  intros E. rewrite E in P. exact P.
Qed.

Definition wm (i : N) : msg := Msg i PQuery [AModel i true].
(* a request buffered before the expiry is forwarded after the nil call was enqueued *)
Definition v0_witness : list label :=
  [LQSub true; LQPublish; LQArrive (wm 1) true; LQExpire; LQTake; LQForward true; LQRun None; LQRun (Some 1%N)].

Lemma late_callback_v0_pf : exists c tr s m,
  c_serial c = true /\ run_v0 c init tr = Some s /\ In m (early_of tr) /\
  exists l1 l2, q_calls s = l1 ++ CNil :: l2 /\ In (CReq m) l2.
Proof.
  exists (Cfg true TModel), v0_witness, (match run_v0 (Cfg true TModel) init v0_witness with Some s => s | None => init end), (wm 1).
  split; [reflexivity|]. split; [vm_compute; reflexivity|]. split; [vm_compute; left; reflexivity|].
  exists [], [CReq (wm 1)]. split; [vm_compute; reflexivity|left; reflexivity].
Qed.

(* ---- any number of query events ---- *)
Lemma nth_upd_same : forall A (l : list A) i x y, nth_error l i = Some y -> nth_error (upd l i x) i = Some x.
Proof.
  intros A l. induction l as [|a l IH]; intros i x y H; destruct i; cbn in *; try discriminate; [reflexivity|].
  eapply IH; exact H.
Qed.
Lemma nth_upd_other : forall A (l : list A) i j x, i <> j -> nth_error (upd l i x) j = nth_error l j.
Proof.
  intros A l. induction l as [|a l IH]; intros i j x H; destruct i, j; cbn; try reflexivity; try congruence.
  apply IH. congruence.
Qed.

Lemma mrun_proj_pf : forall cs tr ss ss' i c s, mrun cs ss tr = Some ss' ->
  nth_error cs i = Some c -> nth_error ss i = Some s ->
  exists s', nth_error ss' i = Some s' /\ run c s (proj i tr) = Some s'.
Proof.
  intros cs tr. induction tr as [|[j l] tr IH]; intros ss ss' i c s H C S.
  - injection H as <-. exists s. split; [exact S|reflexivity].
  - cbn [mrun] in H. destruct (mstep cs ss (j, l)) as [ss1|] eqn:E; [|discriminate].
    unfold mstep in E. cbn [fst snd] in E.
    destruct (nth_error cs j) as [cj|] eqn:Cj; [|discriminate].
    destruct (nth_error ss j) as [sj|] eqn:Sj; [|discriminate].
    destruct (step true cj sj l) as [sj'|] eqn:St; [|discriminate]. injection E as <-.
    unfold proj. cbn [filter fst]. destruct (Nat.eqb_spec j i) as [->|NE].
    + rewrite C in Cj. injection Cj as <-. rewrite S in Sj. injection Sj as <-.
      cbn [map snd]. rewrite run_cons, St. apply (IH _ _ _ _ _ H C). eapply nth_upd_same. exact S.
    + apply (IH _ _ _ _ _ H C). rewrite nth_upd_other by exact NE. exact S.
Qed.

Lemma nth_repeat : forall A (x : A) n i, (i < n)%nat -> nth_error (repeat x n) i = Some x.
Proof.
  intros A x n. induction n as [|n IH]; intros i H; [lia|].
  destruct i; cbn; [reflexivity|]. apply IH. lia.
Qed.

(* every component of a system of query events follows the single query event LTS on its own labels *)
Lemma multi_component_pf : forall cs tr ss' i c s', mrun cs (repeat init (length cs)) tr = Some ss' ->
  nth_error cs i = Some c -> nth_error ss' i = Some s' -> run c init (proj i tr) = Some s'.
Proof.
  intros cs tr ss' i c s' H C S.
  assert (L : (i < length cs)%nat) by (apply nth_error_Some; congruence).
  destruct (mrun_proj_pf cs tr _ ss' i c init H C (nth_repeat _ init _ _ L)) as (s1 & A & B).
  rewrite S in A. injection A as <-. exact B.
Qed.

Lemma released_progress_reachable_pf : forall c s, reachable c s -> q_done s = true -> q_pc s <> LNone.
Proof.
  intros c s R D E. destruct (q_pub s) eqn:P.
  - destruct (i_pubt _ _ (inv_reachable _ _ R) P) as [X _]. exact (X E).
  - destruct (i_pubf _ _ (inv_reachable _ _ R) P) as [_ X]. congruence.
Qed.

(* ---- fresh subjects: a request reaches the query event it is addressed to and no other ---- *)
Lemma route_from_in : forall subs i subj j, In j (route_from i subs subj) ->
  (i <= j)%nat /\ nth_error subs (j - i) = Some subj.
Proof.
  induction subs as [|s r IH]; intros i subj j H; cbn [route_from] in H; [destruct H|].
  destruct (N.eqb_spec s subj) as [->|NE].
  - destruct H as [<-|H].
    + split; [lia|]. replace (i - i)%nat with 0%nat by lia. reflexivity.
    + destruct (IH _ _ _ H) as [L E]. split; [lia|]. replace (j - i)%nat with (S (j - S i)) by lia. exact E.
  - destruct (IH _ _ _ H) as [L E]. split; [lia|]. replace (j - i)%nat with (S (j - S i)) by lia. exact E.
Qed.

Lemma route_from_complete : forall subs i subj k, nth_error subs k = Some subj -> In (i + k)%nat (route_from i subs subj).
Proof.
  induction subs as [|s r IH]; intros i subj k H; [destruct k; discriminate|].
  cbn [route_from]. destruct k as [|k]; cbn [nth_error] in H.
  - injection H as ->. rewrite N.eqb_refl. left. lia.
  - replace (i + S k)%nat with (S i + k)%nat by lia.
    destruct (N.eqb s subj); [right|]; apply IH; exact H.
Qed.

Lemma nodup_nth_inj : forall (l : list N) i j x, NoDup l -> nth_error l i = Some x -> nth_error l j = Some x -> i = j.
Proof.
  intros l i j x ND Hi Hj. apply (proj1 (NoDup_nth_error l) ND); [apply nth_error_Some; congruence|congruence].
Qed.

Lemma fresh_subjects_route_pf : forall subs i subj, NoDup subs -> nth_error subs i = Some subj ->
  In i (route subs subj) /\ forall j, In j (route subs subj) -> j = i.
Proof.
  intros subs i subj ND H. split.
  - apply (route_from_complete subs 0 subj i H).
  - intros j IN. destruct (route_from_in _ _ _ _ IN) as [_ E]. replace (j - 0)%nat with j in E by lia.
    apply (nodup_nth_inj subs j i subj ND E H).
Qed.

(* a step of query event i leaves every other query event as it was *)
Lemma mstep_local_pf : forall cs ss i l ss' j, mstep cs ss (i, l) = Some ss' -> j <> i -> nth_error ss' j = nth_error ss j.
Proof.
  intros cs ss i l ss' j H NE. unfold mstep in H. cbn [fst snd] in H.
  destruct (nth_error cs i); [|discriminate]. destruct (nth_error ss i); [|discriminate].
  destruct (step true _ _ l); [|discriminate]. injection H as <-. apply nth_upd_other. congruence.
Qed.
