(* Executable model of query events of go-res (property C15):
     resource.go    QueryEvent (method of resource)
     queryevent.go  entire file: startQueryListener / forward / handleQueryRequest /
                    executeCallback (recover) / error / success / reply and the QueryRequest methods
     service.go     queryEventExpire, runWith (as "append to the resource's group queue or refuse")
     timerqueue     the expiry callback fires once per query event (trusted, see checks/C15.json)

   Part 1 is the interpreter of ONE query request ([handle]): the payload class, then the user
   callback as a script of QueryRequest method calls and panics, then the fallback response.
   Part 2 is a labelled transition system for ONE query event: subscription, the query event
   message, the buffered channel (capacity 10, the connection drops when it is full), the listener
   goroutine, the expiry timer and the projection of the resource's group queue onto the callbacks
   of this query event.  Query events share nothing but the group queue, whose serialisation and
   FIFO order are properties C01/C02 and are used here as the modelling assumption "callbacks
   appended to the group queue run one at a time in append order" (for Parallel resources the
   order is arbitrary: [c_serial = false]).

   [step true]  = the code as it is now (after the fix "query event listeners stop at expiry and
                  the nil call is the last callback call"): the listener is a select loop over the
                  channel and a done channel closed by queryEventExpire.
   [step false] = the code before that fix (listener = `for m := range qe.ch`, which never ends
                  because nats.go never closes the channel; queryEventExpire enqueues the nil call
                  itself), kept for the [_refuted] theorems.

   nats.go's Drain is modelled as: new deliveries stop eventually (the model allows any number of
   late arrivals), messages already buffered in the channel stay readable, the channel is never
   closed.  No proofs in this file. *)
From Coq Require Import List NArith Bool.
Import ListNotations.
Open Scope N_scope.

(* ------------------------------------------------------------------------------------------ *)
(* Part 1: one query request                                                                    *)
(* ------------------------------------------------------------------------------------------ *)

Inductive rtype := TUnset | TModel | TCollection.          (* Handler.Type of the resource *)

(* argument of QueryRequest.Error *)
Inductive uerr :=
  | UErr (code msg : N)       (* a non-nil *res.Error with a custom code and message *)
  | UNilErr                   (* a nil *res.Error *)
  | UPlain (msg : N)          (* any other error value *)
  | UNilIface.                (* the nil error interface (err.Error() panics inside errString) *)

(* panic messages: the user's, or one of go-res's own
   1 model on query collection  2 collection on query model  3 change event on query collection
   4 add event on query model   5 add idx < 0                6 remove event on query model
   7 remove idx < 0             8 negative timeout *)
Inductive smsg := SUser (m : N) | SLib (k : N).

(* value passed to panic *)
Inductive pval :=
  | VErr (code msg : N)       (* non-nil *res.Error *)
  | VNilErr                   (* nil *res.Error *)
  | VError (m : option N)     (* other error; None = its Error method panics *)
  | VString (s : smsg)
  | VOther (v : N).           (* anything else, formatted with %v *)

(* what the callback does with the QueryRequest, in order *)
Inductive action :=
  | AModel (v : N) (marsh : bool)             (* marsh = json.Marshal of the value succeeds *)
  | ACollection (v : N) (marsh : bool)
  | ANotFound
  | AInvalidQuery (m : option N)              (* None = empty message *)
  | AError (e : uerr)
  | ATimeout (neg : bool) (ms : N)
  | AChange (empty : bool) (v : N) (marsh : bool)
  | AAdd (v : N) (neg : bool) (idx : N) (marsh : bool)
  | ARemove (neg : bool) (idx : N)
  | APanic (p : pval)
  | AQueryEvent.                              (* starts another query event on the QueryRequest (its own LTS instance) *)

Inductive ev := EvChange (v : N) | EvAdd (v idx : N) | EvRemove (idx : N).

Inductive ecode := CInternal | CNotFound | CInvalidQuery | CUser (c : N).
Inductive emsg :=
  | MStd                      (* the standard message of the code *)
  | MMissingQuery             (* "Internal error: missing query" *)
  | MMalformed                (* "Internal error: " ++ the json.Unmarshal error *)
  | MUser (m : N)             (* the user's message verbatim *)
  | MWrapped (m : N)          (* "Internal error: " ++ the user's message *)
  | MPanicInErr               (* "Internal error: panic in Error method" *)
  | MMarshal                  (* "Internal error: " ++ the json.Marshal error *)
  | MLib (k : N)              (* "Internal error: " ++ go-res's own panic message k *)
  | MOther (v : N).           (* "Internal error: " ++ %v of the panic value *)

Inductive resp :=
  | RModel (v : N) | RColl (v : N) | REvents (l : list ev) | RErr (c : ecode) (m : emsg).

(* a message published on the request's reply subject *)
Inductive pubmsg := PResp (r : resp) | PPre (ms : N).     (* PPre = timeout pre-response *)

Record rst := RS {
  r_replied : bool;           (* queryRequest.replied *)
  r_evs : list ev;            (* queryRequest.events *)
  r_evok : bool;              (* every accumulated event value can be marshalled *)
  r_out : list pubmsg
}.
Definition rs0 : rst := RS false [] true [].

(* queryRequest.reply: a second reply is only logged *)
Definition reply (s : rst) (r : resp) : rst :=
  if r_replied s then s else RS true (r_evs s) (r_evok s) (r_out s ++ [PResp r]).

Definition add_ev (s : rst) (e : ev) (ok : bool) : rst :=
  RS (r_replied s) (r_evs s ++ [e]) (r_evok s && ok) (r_out s).
Definition pre (s : rst) (ms : N) : rst :=
  RS (r_replied s) (r_evs s) (r_evok s) (r_out s ++ [PPre ms]).

(* ToError followed by queryRequest.error (nil *Error => ErrInternalError) *)
Definition err_resp (e : uerr) : resp :=
  match e with
  | UErr c m => RErr (CUser c) (MUser m)
  | UNilErr => RErr CInternal MStd
  | UPlain m => RErr CInternal (MWrapped m)
  | UNilIface => RErr CInternal MPanicInErr
  end.

Inductive ares := Cont (s : rst) | Panic (s : rst) (v : pval).

Definition act (ty : rtype) (s : rst) (a : action) : ares :=
  match a with
  | AModel v marsh =>
    match ty with
    | TCollection => Panic s (VString (SLib 1))
    | _ => Cont (reply s (if marsh then RModel v else RErr CInternal MMarshal))
    end
  | ACollection v marsh =>
    match ty with
    | TModel => Panic s (VString (SLib 2))
    | _ => Cont (reply s (if marsh then RColl v else RErr CInternal MMarshal))
    end
  | ANotFound => Cont (reply s (RErr CNotFound MStd))
  | AInvalidQuery None => Cont (reply s (RErr CInvalidQuery MStd))
  | AInvalidQuery (Some m) => Cont (reply s (RErr CInvalidQuery (MUser m)))
  | AError e => Cont (reply s (err_resp e))
  | ATimeout neg ms => if neg then Panic s (VString (SLib 8)) else Cont (pre s ms)
  | AChange empty v marsh =>
    match ty with
    | TCollection => Panic s (VString (SLib 3))
    | _ => if empty then Cont s else Cont (add_ev s (EvChange v) marsh)
    end
  | AAdd v neg idx marsh =>
    match ty with
    | TModel => Panic s (VString (SLib 4))
    | _ => if neg then Panic s (VString (SLib 5)) else Cont (add_ev s (EvAdd v idx) marsh)
    end
  | ARemove neg idx =>
    match ty with
    | TModel => Panic s (VString (SLib 6))
    | _ => if neg then Panic s (VString (SLib 7)) else Cont (add_ev s (EvRemove idx) true)
    end
  | APanic p => Panic s p
  | AQueryEvent => Cont s
  end.

Fixpoint run_script (ty : rtype) (s : rst) (sc : list action) : ares :=
  match sc with
  | [] => Cont s
  | a :: r => match act ty s a with Cont s' => run_script ty s' r | p => p end
  end.

(* the deferred recover of executeCallback: an error response unless one was already sent *)
Definition recover_resp (v : pval) : resp :=
  match v with
  | VErr c m => RErr (CUser c) (MUser m)
  | VNilErr => RErr CInternal MStd
  | VError (Some m) => RErr CInternal (MWrapped m)
  | VError None => RErr CInternal MPanicInErr
  | VString (SUser m) => RErr CInternal (MWrapped m)
  | VString (SLib k) => RErr CInternal (MLib k)
  | VOther v => RErr CInternal (MOther v)
  end.
Definition recover (s : rst) (v : pval) : rst := reply s (recover_resp v).

(* the tail of handleQueryRequest: the accumulated events, or the no-events response *)
Definition finish (s : rst) : rst :=
  if r_replied s then s else
  match r_evs s with
  | [] => reply s (REvents [])
  | evs => reply s (if r_evok s then REvents evs else RErr CInternal MStd)
  end.

(* class of the request payload (decided by encoding/json and the query field) *)
Inductive payload := PMalformed | PMissing | PQuery.

Record msg := Msg { m_id : N; m_pl : payload; m_script : list action }.

Definition exec_cb (ty : rtype) (sc : list action) : rst :=
  match run_script ty rs0 sc with Cont s => s | Panic s v => recover s v end.

(* handleQueryRequest: everything published on the reply subject of the request *)
Definition handle (ty : rtype) (m : msg) : list pubmsg :=
  match m_pl m with
  | PMalformed => [PResp (RErr CInternal MMalformed)]
  | PMissing => [PResp (RErr CInternal MMissingQuery)]
  | PQuery => r_out (finish (exec_cb ty (m_script m)))
  end.

(* ------------------------------------------------------------------------------------------ *)
(* Part 2: one query event                                                                      *)
(* ------------------------------------------------------------------------------------------ *)

Definition chan_size : nat := 10.                            (* queryEventChannelSize *)

Inductive call := CReq (m : msg) | CNil.                     (* one invocation of the callback *)

(* listener goroutine *)
Inductive lpc :=
  | LNone                     (* not started *)
  | LIdle                     (* at the select *)
  | LHold (m : msg)           (* took m in the normal branch, has not forwarded it yet *)
  | LDrain                    (* took the done branch: inner loop forwarding the buffered requests *)
  | LNilPend                  (* saw the channel empty, about to enqueue the nil call *)
  | LExited.

Record cfg := Cfg { c_serial : bool; c_ty : rtype }.         (* not Parallel; resource type *)

Record qs := QS {
  q_sub : option bool;        (* result of ChanSubscribe, None = not called yet *)
  q_pub : bool;               (* the event.<rid>.query message was published *)
  q_ch : list msg;            (* the channel buffer *)
  q_done : bool;              (* qe.done closed (v0: expiry callback ran) *)
  q_pc : lpc;
  q_gq : list call;           (* callbacks of this query event waiting in the group queue *)
  q_calls : list call;        (* invocations of the callback so far, in order *)
  q_outs : list (N * list pubmsg);   (* request id, messages published on its reply subject *)
  q_early : list msg;         (* ghost: requests put into the channel before the expiry *)
  q_refused : bool            (* ghost: runWith refused a callback (service not started) *)
}.
Definition init : qs := QS None false [] false LNone [] [] [] [] false.

Inductive label :=
  | LQSub (ok : bool)         (* ChanSubscribe; on failure cb(nil) is called synchronously *)
  | LQPublish                 (* the query event message; the listener is started *)
  | LQArrive (m : msg) (acc : bool)   (* the connection delivers m; acc = false: channel full, dropped *)
  | LQTake                    (* listener: normal select branch *)
  | LQForward (ok : bool)     (* listener: runWith(group, handleQueryRequest m); ok = accepted *)
  | LQExpire                  (* timer: Drain, close(done) *)
  | LQDone                    (* listener: done branch of the select *)
  | LQDrain (ok : bool)       (* listener: inner loop takes the head of the channel and forwards it *)
  | LQEmpty                   (* listener: inner loop finds the channel empty *)
  | LQNil (ok : bool)         (* listener: runWith(group, cb(nil)), then returns *)
  | LQRun (c : option N).     (* a worker runs a callback of this query event: Some id / None = nil *)

Definition set_pc (s : qs) (p : lpc) : qs :=
  QS (q_sub s) (q_pub s) (q_ch s) (q_done s) p (q_gq s) (q_calls s) (q_outs s) (q_early s) (q_refused s).
Definition set_ch (s : qs) (ch : list msg) : qs :=
  QS (q_sub s) (q_pub s) ch (q_done s) (q_pc s) (q_gq s) (q_calls s) (q_outs s) (q_early s) (q_refused s).
(* runWith: append to the group queue, or refuse *)
Definition enqueue (s : qs) (ok : bool) (c : call) : qs :=
  if ok then QS (q_sub s) (q_pub s) (q_ch s) (q_done s) (q_pc s) (q_gq s ++ [c]) (q_calls s) (q_outs s) (q_early s) (q_refused s)
  else QS (q_sub s) (q_pub s) (q_ch s) (q_done s) (q_pc s) (q_gq s) (q_calls s) (q_outs s) (q_early s) true.

Definition call_is (c : option N) (x : call) : bool :=
  match c, x with
  | None, CNil => true
  | Some i, CReq m => N.eqb i (m_id m)
  | _, _ => false
  end.

(* first element matching c, and the rest *)
Fixpoint pick (c : option N) (l : list call) : option (call * list call) :=
  match l with
  | [] => None
  | x :: r =>
    if call_is c x then Some (x, r)
    else match pick c r with Some (y, r') => Some (y, x :: r') | None => None end
  end.

Definition ran (ty : rtype) (s : qs) (x : call) (rest : list call) : qs :=
  QS (q_sub s) (q_pub s) (q_ch s) (q_done s) (q_pc s) rest (q_calls s ++ [x])
     (match x with CReq m => q_outs s ++ [(m_id m, handle ty m)] | CNil => q_outs s end)
     (q_early s) (q_refused s).

Definition step (fixed : bool) (c : cfg) (s : qs) (l : label) : option qs :=
  match l with
  | LQSub ok =>
    match q_sub s with
    | None =>
      if ok then
        Some (QS (Some true) (q_pub s) (q_ch s) (q_done s) (q_pc s) (q_gq s) (q_calls s) (q_outs s) (q_early s) (q_refused s))
      else
        Some (QS (Some false) (q_pub s) (q_ch s) (q_done s) (q_pc s) (q_gq s) (q_calls s ++ [CNil]) (q_outs s) (q_early s) (q_refused s))
    | Some _ => None
    end
  | LQPublish =>
    match q_sub s, q_pub s, q_pc s with
    | Some true, false, LNone =>
      Some (QS (q_sub s) true (q_ch s) (q_done s) LIdle (q_gq s) (q_calls s) (q_outs s) (q_early s) (q_refused s))
    | _, _, _ => None
    end
  | LQArrive m acc =>
    match q_sub s with
    | Some true =>
      if Bool.eqb acc (Nat.ltb (length (q_ch s)) chan_size) then
        if acc then
          Some (QS (q_sub s) (q_pub s) (q_ch s ++ [m]) (q_done s) (q_pc s) (q_gq s) (q_calls s) (q_outs s)
                   (if q_done s then q_early s else q_early s ++ [m]) (q_refused s))
        else Some s
      else None
    | _ => None
    end
  | LQTake =>
    match q_pc s, q_ch s with
    | LIdle, m :: r => Some (set_pc (set_ch s r) (LHold m))
    | _, _ => None
    end
  | LQForward ok =>
    match q_pc s with
    | LHold m => Some (set_pc (enqueue s ok (CReq m)) LIdle)
    | _ => None
    end
  | LQExpire =>
    match q_sub s, q_pub s, q_done s with
    | Some true, true, false =>
      let s' := QS (q_sub s) (q_pub s) (q_ch s) true (q_pc s) (q_gq s) (q_calls s) (q_outs s) (q_early s) (q_refused s) in
      if fixed then Some s' else Some (enqueue s' true CNil)
    | _, _, _ => None
    end
  | LQDone =>
    if fixed then
      match q_pc s, q_done s with
      | LIdle, true => Some (set_pc s LDrain)
      | _, _ => None
      end
    else None
  | LQDrain ok =>
    match q_pc s, q_ch s with
    | LDrain, m :: r => Some (enqueue (set_ch s r) ok (CReq m))
    | _, _ => None
    end
  | LQEmpty =>
    match q_pc s, q_ch s with
    | LDrain, [] => Some (set_pc s LNilPend)
    | _, _ => None
    end
  | LQNil ok =>
    match q_pc s with
    | LNilPend => Some (set_pc (enqueue s ok CNil) LExited)
    | _ => None
    end
  | LQRun r =>
    if c_serial c then
      match q_gq s with
      | x :: rest => if call_is r x then Some (ran (c_ty c) s x rest) else None
      | [] => None
      end
    else
      match pick r (q_gq s) with
      | Some (x, rest) => Some (ran (c_ty c) s x rest)
      | None => None
      end
  end.

Fixpoint run_gen (fixed : bool) (c : cfg) (s : qs) (tr : list label) : option qs :=
  match tr with
  | [] => Some s
  | l :: tr' => match step fixed c s l with Some s' => run_gen fixed c s' tr' | None => None end
  end.
Definition run := run_gen true.
Definition run_v0 := run_gen false.

(* index of the first label the model refuses *)
Fixpoint first_reject (c : cfg) (s : qs) (tr : list label) (i : nat) : option nat :=
  match tr with
  | [] => None
  | l :: tr' => match step true c s l with Some s' => first_reject c s' tr' (S i) | None => Some i end
  end.

(* steps of the listener goroutine *)
Definition is_listener (l : label) : bool :=
  match l with
  | LQTake | LQForward _ | LQDone | LQDrain _ | LQEmpty | LQNil _ => true
  | _ => false
  end.

(* ---- any number of query events: independent components, labels tagged with the index ---- *)
Fixpoint upd {A} (l : list A) (i : nat) (x : A) : list A :=
  match l, i with
  | [], _ => []
  | _ :: r, O => x :: r
  | y :: r, S j => y :: upd r j x
  end.
Definition mstep (cs : list cfg) (ss : list qs) (il : nat * label) : option (list qs) :=
  match nth_error cs (fst il), nth_error ss (fst il) with
  | Some c, Some s =>
    match step true c s (snd il) with Some s' => Some (upd ss (fst il) s') | None => None end
  | _, _ => None
  end.
Fixpoint mrun (cs : list cfg) (ss : list qs) (tr : list (nat * label)) : option (list qs) :=
  match tr with
  | [] => Some ss
  | il :: tr' => match mstep cs ss il with Some ss' => mrun cs ss' tr' | None => None end
  end.
Definition proj (i : nat) (tr : list (nat * label)) : list label :=
  map snd (filter (fun il => Nat.eqb (fst il) i) tr).

(* ---- query subjects ----
   Every query event subscribes to the subject it publishes; the connection delivers a request
   published on subject [subj] to every query event subscribed to it.  [subs] lists the subjects of
   the query events of a service object over its whole history (all Serve runs). *)
Fixpoint route_from (i : nat) (subs : list N) (subj : N) : list nat :=
  match subs with
  | [] => []
  | s :: r => if N.eqb s subj then i :: route_from (S i) r subj else route_from (S i) r subj
  end.
Definition route (subs : list N) (subj : N) : list nat := route_from 0 subs subj.
