(* jirenius/taskqueue v1.1.0 (TaskQueue.Do / processQueue / Flush) and
   QueryStore.Flush as a labelled transition system at lock granularity.
   Every label is one critical section of tq.c.L (or the task function
   returning, which happens outside the lock).

   processQueue pops the head and decrements size BEFORE unlocking and running
   the task; taskqueue.Flush waits for size = 0, so it may return while the
   last task runs.  QueryStore.Flush (as it is now) instead enqueues a sentinel
   task and waits until that task has run.  No proofs here. *)
From GoRes Require Export Base.Bytes.
Open Scope nat_scope.

Inductive task := TIndex (n : nat) | TSentinel (f : nat).
Definition task_eqb (a b : task) : bool :=
  match a, b with
  | TIndex x, TIndex y => Nat.eqb x y
  | TSentinel x, TSentinel y => Nat.eqb x y
  | _, _ => false
  end.

Record tq := TQ {
  cap : nat;
  pending : list task;        (* q[offset .. offset+size), head first; size = length *)
  running : option task;      (* popped, its function is executing outside the lock *)
  working : bool;             (* a processQueue goroutine exists *)
  accepted : list task;       (* ghost: every task Do has enqueued, oldest first *)
  finished : list task;       (* ghost: tasks whose function has returned, oldest first *)
  returned : list nat;        (* QueryStore.Flush calls that have returned *)
  old_returned : list nat     (* taskqueue.Flush calls that have returned *)
}.

Definition tq_init (c : nat) : tq := TQ c [] None false [] [] [] [].

Inductive label :=
| LDo (t : task)            (* Do: wait for room, addTask (starts the worker if none) *)
| LPop                      (* worker: size > 0, take q[offset], size--, unlock *)
| LFinish                   (* the task function returns (a sentinel closes its channel) *)
| LExit                     (* worker: size = 0, working = false, flush.Broadcast *)
| LFlushReturn (f : nat)    (* QueryStore.Flush: <-done of its sentinel f (enqueued by LDo (TSentinel f)) *)
| LOldFlushReturn (f : nat) (* taskqueue.Flush: sees size = 0 under the lock *).

Definition tq_step (s : tq) (l : label) : option tq :=
  match l with
  | LDo t =>
    if Nat.ltb (length (pending s)) (cap s) && negb (existsb (task_eqb t) (accepted s))
    then Some (TQ (cap s) (pending s ++ [t]) (running s) true (accepted s ++ [t]) (finished s)
                  (returned s) (old_returned s))
    else None
  | LPop =>
    match working s, running s, pending s with
    | true, None, t :: r => Some (TQ (cap s) r (Some t) true (accepted s) (finished s) (returned s) (old_returned s))
    | _, _, _ => None
    end
  | LFinish =>
    match running s with
    | Some t => Some (TQ (cap s) (pending s) None (working s) (accepted s) (finished s ++ [t])
                         (returned s) (old_returned s))
    | None => None
    end
  | LExit =>
    match working s, running s, pending s with
    | true, None, [] => Some (TQ (cap s) [] None false (accepted s) (finished s) (returned s) (old_returned s))
    | _, _, _ => None
    end
  | LFlushReturn f =>
    if existsb (task_eqb (TSentinel f)) (finished s)
    then Some (TQ (cap s) (pending s) (running s) (working s) (accepted s) (finished s)
                  (f :: returned s) (old_returned s))
    else None
  | LOldFlushReturn f =>
    match pending s with
    | [] => Some (TQ (cap s) [] (running s) (working s) (accepted s) (finished s)
                     (returned s) (f :: old_returned s))
    | _ => None
    end
  end.

Fixpoint tq_run (s : tq) (ls : list label) : option tq :=
  match ls with
  | [] => Some s
  | l :: r => match tq_step s l with Some s' => tq_run s' r | None => None end
  end.

(* t was accepted strictly before u *)
Definition accepted_before (s : tq) (t u : task) : Prop :=
  exists i j, nth_error (accepted s) i = Some t /\ nth_error (accepted s) j = Some u /\ i < j.
