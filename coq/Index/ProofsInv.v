(* index_invariant: after any mutation history the index key space is exactly
   { name:key\0id | (id, v) stored, key v <> nil } for every index. *)
From GoRes Require Import Index.Spec Index.ProofsOrder Index.ProofsSort.
From Coq Require Import Sorting.Sorted.
Open Scope N_scope.

Lemma first_sep_inj : forall (c : N) a b x y,
  ~ In c a -> ~ In c b -> a ++ c :: x = b ++ c :: y -> a = b /\ x = y.
Proof.
  induction a as [|u a IH]; intros [|w b] x y Ha Hb E; cbn in E.
  - inversion E. split; reflexivity.
  - inversion E; subst. exfalso. apply Hb. left; reflexivity.
  - inversion E; subst. exfalso. apply Ha. left; reflexivity.
  - inversion E; subst. destruct (IH b x y) as [E1 E2]; [intros H; apply Ha; right; exact H|intros H; apply Hb; right; exact H|assumption|].
    subst. split; reflexivity.
Qed.

Lemma colon_free_notin : forall n, colon_free n = true -> ~ In colon n.
Proof.
  intros n H Hin. unfold colon_free in H. rewrite forallb_forall in H. specialize (H _ Hin).
  rewrite N.eqb_refl in H. discriminate.
Qed.

Lemma get_key_name_inj : forall n1 k1 i1 n2 k2 i2,
  colon_free n1 = true -> colon_free n2 = true ->
  get_key n1 k1 i1 = get_key n2 k2 i2 -> n1 = n2.
Proof.
  intros n1 k1 i1 n2 k2 i2 H1 H2 E. unfold get_key in E.
  apply first_sep_inj in E as [E _]; [exact E|apply colon_free_notin; assumption|apply colon_free_notin; assumption].
Qed.

Lemma NoDup_map_inj : forall {A B} (f : A -> B) l x y,
  NoDup (map f l) -> In x l -> In y l -> f x = f y -> x = y.
Proof.
  induction l as [|a l IH]; intros x y ND Hx Hy E; [destruct Hx|].
  cbn in ND. inversion ND as [|? ? Na ND']; subst.
  destruct Hx as [Hx|Hx]; destruct Hy as [Hy|Hy]; subst.
  - reflexivity.
  - exfalso. apply Na. rewrite E. apply in_map. assumption.
  - exfalso. apply Na. rewrite <- E. apply in_map. assumption.
  - apply IH; assumption.
Qed.

Section Inv.
Context {V : Type}.
Variable idxs : list (index V).
Hypothesis names_cf : forall ix, In ix idxs -> colon_free (iname ix) = true.
Hypothesis names_nd : NoDup (map iname idxs).

(* ---- the value store ---- *)
Lemma st_get_del : forall id id' (s : vstore V),
  st_get id' (st_del id s) = if beq id' id then None else st_get id' s.
Proof.
  induction s as [|[i v] s IH]; cbn.
  - destruct (beq id' id); reflexivity.
  - destruct (beq id i) eqn:E.
    + apply beq_eq in E. subst i. rewrite IH. destruct (beq id' id); reflexivity.
    + cbn. rewrite IH. destruct (beq id' i) eqn:E'; [|reflexivity].
      apply beq_eq in E'. subst i. destruct (beq id' id) eqn:E''; [|reflexivity].
      apply beq_eq in E''. subst. rewrite beq_refl in E. discriminate.
Qed.

Lemma st_get_put : forall id id' ov (s : vstore V),
  st_get id' (st_put id ov s) = if beq id' id then ov else st_get id' s.
Proof.
  intros. unfold st_put. destruct ov as [v|].
  - cbn. destruct (beq id' id) eqn:E; [reflexivity|]. rewrite st_get_del, E. reflexivity.
  - rewrite st_get_del. destruct (beq id' id); reflexivity.
Qed.

(* the key set the index should hold *)
Definition target (r : list (index V)) (s : vstore V) (k : bytes) : Prop :=
  exists ix id v key, In ix r /\ st_get id s = Some v /\ ikey ix v = Some key /\ k = get_key (iname ix) key id.

Definition ids_nf (s : vstore V) : Prop := forall id v, st_get id s = Some v -> nul_free id = true.

Definition removed (r : list (index V)) id (b a : option V) (k : bytes) : Prop :=
  exists ix key, In ix r /\ opt_key ix b = Some key /\ okey_eq (opt_key ix b) (opt_key ix a) = false
                 /\ k = get_key (iname ix) key id.
Definition added (r : list (index V)) id (b a : option V) (k : bytes) : Prop :=
  exists ix key, In ix r /\ opt_key ix a = Some key /\ okey_eq (opt_key ix b) (opt_key ix a) = false
                 /\ k = get_key (iname ix) key id.

Lemma update_idxs_SS : forall (r : list (index V)) id b a d u,
  StronglySorted bltP d -> StronglySorted bltP (fst (update_idxs r id b a d u)).
Proof.
  induction r as [|ix r IH]; intros id b a d u S; [exact S|].
  cbn [update_idxs]. destruct (okey_eq (opt_key ix b) (opt_key ix a)); [apply IH; exact S|].
  apply IH. destruct (opt_key ix a); destruct (opt_key ix b);
    repeat (first [apply db_set_SS|apply db_del_SS]); exact S.
Qed.

Lemma update_idxs_flag : forall (r : list (index V)) id b a d u,
  snd (update_idxs r id b a d u) =
  u || existsb (fun ix => negb (okey_eq (opt_key ix b) (opt_key ix a))) r.
Proof.
  induction r as [|ix r IH]; intros; cbn [update_idxs existsb].
  - rewrite orb_false_r. reflexivity.
  - destruct (okey_eq (opt_key ix b) (opt_key ix a)); cbn [negb orb].
    + apply IH.
    + rewrite IH. rewrite orb_true_r. reflexivity.
Qed.

Lemma update_idxs_In : forall (r : list (index V)) id b a d u k,
  (forall ix, In ix r -> colon_free (iname ix) = true) -> NoDup (map iname r) ->
  (In k (fst (update_idxs r id b a d u)) <->
   (In k d /\ ~ removed r id b a k) \/ added r id b a k).
Proof.
  induction r as [|ix r IH]; intros id b a d u k CF ND.
  - cbn. split.
    + intros H. left. split; [exact H|]. intros [ix [key [[] _]]].
    + intros [[H _]|[ix [key [[] _]]]]. exact H.
  - cbn [map] in ND. inversion ND as [|? ? Nix ND']; subst.
    assert (CF' : forall ix', In ix' r -> colon_free (iname ix') = true) by (intros; apply CF; right; assumption).
    cbn [update_idxs]. destruct (okey_eq (opt_key ix b) (opt_key ix a)) eqn:Eq.
    + rewrite (IH id b a d u k CF' ND'). split.
      * intros [[H N]|[ix' [key [Hin R]]]].
        -- left. split; [exact H|]. intros [ix' [key [[Hin|Hin] [R1 [R2 R3]]]]].
           ++ subst ix'. congruence.
           ++ apply N. exists ix', key. tauto.
        -- right. exists ix', key. split; [right; exact Hin|exact R].
      * intros [[H N]|[ix' [key [[Hin|Hin] [R1 [R2 R3]]]]]].
        -- left. split; [exact H|]. intros [ix' [key [Hin R]]]. apply N. exists ix', key. split; [right; exact Hin|exact R].
        -- subst ix'. congruence.
        -- right. exists ix', key. tauto.
    + set (d1 := match opt_key ix b with Some k0 => db_del (get_key (iname ix) k0 id) d | None => d end).
      set (d2 := match opt_key ix a with Some k0 => db_set (get_key (iname ix) k0 id) d1 | None => d1 end).
      rewrite (IH id b a d2 true k CF' ND').
      assert (D1 : In k d1 <-> In k d /\ forall key, opt_key ix b = Some key -> k <> get_key (iname ix) key id).
      { unfold d1. destruct (opt_key ix b) as [kb|].
        - rewrite db_del_In. split.
          + intros [H N]. split; [exact H|]. intros key Ek. inversion Ek; subst. exact N.
          + intros [H N]. split; [exact H|]. apply N. reflexivity.
        - split; [intros H; split; [exact H|discriminate]|tauto]. }
      assert (D2 : In k d2 <-> (exists key, opt_key ix a = Some key /\ k = get_key (iname ix) key id) \/ In k d1).
      { unfold d2. destruct (opt_key ix a) as [ka|].
        - rewrite db_set_In. split.
          + intros [H|H]; [left; exists ka; split; [reflexivity|exact H]|right; exact H].
          + intros [[key [Ek H]]|H]; [left; congruence|right; exact H].
        - split; [right; assumption|]. intros [[key [Ek _]]|H]; [discriminate|exact H]. }
      (* a key written for ix is not one removed for a later index *)
      assert (Sep : forall key, k = get_key (iname ix) key id -> ~ removed r id b a k).
      { intros key Ek [ix' [key' [Hin [_ [_ Ek']]]]]. rewrite Ek in Ek'.
        apply get_key_name_inj in Ek'; [|apply CF; left; reflexivity|apply CF'; assumption].
        apply Nix. rewrite Ek'. apply in_map. assumption. }
      split.
      * intros [[H N]|[ix' [key [Hin R]]]].
        -- apply D2 in H as [[key [Ek Hk]]|H].
           ++ right. exists ix, key. split; [left; reflexivity|]. split; [exact Ek|]. split; [exact Eq|exact Hk].
           ++ apply D1 in H as [H Nk]. left. split; [exact H|].
              intros [ix' [key [[Hin|Hin] [R1 [R2 R3]]]]].
              ** subst ix'. exact (Nk key R1 R3).
              ** apply N. exists ix', key. tauto.
        -- right. exists ix', key. split; [right; exact Hin|exact R].
      * intros [[H N]|[ix' [key [[Hin|Hin] [R1 [R2 R3]]]]]].
        -- left. split.
           ++ apply D2. right. apply D1. split; [exact H|]. intros key Ek Hk. apply N.
              exists ix, key. split; [left; reflexivity|]. split; [exact Ek|]. split; [exact Eq|exact Hk].
           ++ intros [ix' [key [Hin R]]]. apply N. exists ix', key. split; [right; exact Hin|exact R].
        -- subst ix'. left. split.
           ++ apply D2. left. exists key. split; assumption.
           ++ apply (Sep key). exact R3.
        -- right. exists ix', key. tauto.
Qed.

Lemma okey_eq_true : forall x y, okey_eq x y = true -> x = y.
Proof.
  intros [x|] [y|] H; cbn in H; try discriminate; [|reflexivity].
  apply beq_eq in H. congruence.
Qed.

Lemma get_key_full_inj : forall ix1 k1 i1 ix2 k2 i2,
  In ix1 idxs -> In ix2 idxs -> nul_free i1 = true -> nul_free i2 = true ->
  get_key (iname ix1) k1 i1 = get_key (iname ix2) k2 i2 -> ix1 = ix2 /\ k1 = k2 /\ i1 = i2.
Proof.
  intros ix1 k1 i1 ix2 k2 i2 H1 H2 N1 N2 E.
  assert (En : iname ix1 = iname ix2) by (eapply get_key_name_inj; [apply names_cf; exact H1|apply names_cf; exact H2|exact E]).
  assert (Ei : ix1 = ix2) by (eapply (NoDup_map_inj iname); eassumption).
  subst ix2. apply get_key_inj in E as [Ek Eid]; [|assumption|assumption]. tauto.
Qed.

(* one index task keeps the invariant *)
Lemma step_inv : forall s d id b a,
  (forall k, In k d <-> target idxs s k) -> ids_nf s ->
  st_get id s = b -> nul_free id = true ->
  (forall k, In k (fst (update_idxs idxs id b a d false)) <-> target idxs (st_put id a s) k)
  /\ ids_nf (st_put id a s).
Proof.
  intros s d id b a Inv NF Hb Nid. split.
  - intros k. rewrite (update_idxs_In idxs id b a d false k names_cf names_nd). split.
    + intros [[H N]|[ix [key [Hin [Ek [Eq Hk]]]]]].
      * apply Inv in H as [ix [id0 [v [key [Hin [Hg [Hkey Hk]]]]]]].
        destruct (beq id0 id) eqn:Eid.
        -- apply beq_eq in Eid. subst id0.
           assert (Eb : opt_key ix b = Some key) by (rewrite <- Hb, Hg; exact Hkey).
           destruct (okey_eq (opt_key ix b) (opt_key ix a)) eqn:Eq.
           ++ apply okey_eq_true in Eq. rewrite Eb in Eq.
              destruct a as [va|]; [|discriminate]. cbn in Eq.
              exists ix, id, va, key. split; [exact Hin|]. split; [rewrite st_get_put, beq_refl; reflexivity|].
              split; [congruence|exact Hk].
           ++ exfalso. apply N. exists ix, key. tauto.
        -- exists ix, id0, v, key. split; [exact Hin|]. split; [rewrite st_get_put, Eid; exact Hg|]. tauto.
      * destruct a as [va|]; [|discriminate]. cbn in Ek.
        exists ix, id, va, key. split; [exact Hin|]. split; [rewrite st_get_put, beq_refl; reflexivity|]. tauto.
    + intros [ix [id0 [v [key [Hin [Hg [Hkey Hk]]]]]]].
      rewrite st_get_put in Hg. destruct (beq id0 id) eqn:Eid.
      * apply beq_eq in Eid. subst id0. subst a.
        destruct (okey_eq (opt_key ix b) (opt_key ix (Some v))) eqn:Eq.
        -- left. pose proof (okey_eq_true _ _ Eq) as Eb. cbn in Eb. rewrite Hkey in Eb.
           destruct b as [vb|]; [|discriminate]. cbn in Eb. split.
           ++ apply Inv. exists ix, id, vb, key. tauto.
           ++ intros [ix' [key' [Hin' [R1 [R2 R3]]]]]. rewrite Hk in R3.
              apply get_key_full_inj in R3 as [Ei _]; try assumption. subst ix'. congruence.
        -- right. exists ix, key. tauto.
      * left. split.
        -- apply Inv. exists ix, id0, v, key. tauto.
        -- intros [ix' [key' [Hin' [R1 [R2 R3]]]]]. rewrite Hk in R3.
           apply get_key_full_inj in R3 as [_ [_ Ei]]; try assumption.
           ++ subst id0. rewrite beq_refl in Eid. discriminate.
           ++ eapply NF; exact Hg.
  - intros id0 v Hg. rewrite st_get_put in Hg. destruct (beq id0 id) eqn:Eid.
    + apply beq_eq in Eid. subst. exact Nid.
    + eapply NF; exact Hg.
Qed.

Definition inv (s : vstore V) (d : kdb) : Prop :=
  StronglySorted bltP d /\ (forall k, In k d <-> target idxs s k) /\ ids_nf s.

Lemma update_index_fst : forall ncb d id b a,
  fst (update_index idxs ncb d (id, b, a)) = fst (update_idxs idxs id b a d false).
Proof. intros. unfold update_index. destruct (update_idxs idxs id b a d false). reflexivity. Qed.

Lemma run_changes_cons : forall ncb d c r,
  fst (run_changes idxs ncb d (c :: r)) = fst (run_changes idxs ncb (fst (update_index idxs ncb d c)) r).
Proof.
  intros. cbn [run_changes]. destruct (update_index idxs ncb d c) as [d1 e1]. cbn [fst].
  destruct (run_changes idxs ncb d1 r). reflexivity.
Qed.

Lemma run_inv : forall ncb cs s d,
  inv s d -> chain_ok s cs ->
  inv (fold_left apply_change cs s) (fst (run_changes idxs ncb d cs)).
Proof.
  induction cs as [|[[id b] a] r IH]; intros s d I C; [exact I|].
  cbn [chain_ok fst snd] in C. destruct C as [Hb [Nid C]].
  rewrite run_changes_cons, update_index_fst. cbn [fold_left]. apply IH; [|exact C].
  destruct I as [S [I NF]]. destruct (step_inv s d id b a I NF Hb Nid) as [I' NF'].
  split; [apply update_idxs_SS; exact S|]. split; assumption.
Qed.

Lemma changes_chain : forall (ms : list (mutation V)) s,
  forallb (fun m => nul_free (mut_id m)) ms = true -> chain_ok s (changes_of s ms).
Proof.
  induction ms as [|m ms IH]; intros s H; [exact I|].
  cbn in H. apply andb_true_iff in H as [Hm H]. cbn [changes_of].
  destruct (mut_change s m) as [[[id b] a]|] eqn:E; [|apply IH; exact H].
  cbn [chain_ok fst snd]. split; [|split; [|apply IH; exact H]].
  - destruct m as [i v|i v|i]; cbn in E.
    + destruct (st_get i s) eqn:G; [discriminate|]. destruct (is_nil i); [discriminate|]. inversion E; subst. exact G.
    + destruct (st_get i s) eqn:G; [|discriminate]. inversion E; subst. exact G.
    + destruct (st_get i s) eqn:G; [|discriminate]. inversion E; subst. exact G.
  - destruct m as [i v|i v|i]; cbn in E, Hm.
    + destruct (st_get i s); [discriminate|]. destruct (is_nil i); [discriminate|]. inversion E; subst. exact Hm.
    + destruct (st_get i s); [|discriminate]. inversion E; subst. exact Hm.
    + destruct (st_get i s); [|discriminate]. inversion E; subst. exact Hm.
Qed.

(* ---- from st_get to entries_of ---- *)
Lemma st_del_notin : forall id (s : vstore V), ~ In id (map fst (st_del id s)).
Proof.
  induction s as [|[i v] s IH]; cbn; [tauto|].
  destruct (beq id i) eqn:E; [exact IH|]. cbn. intros [H|H]; [|exact (IH H)].
  subst. rewrite beq_refl in E. discriminate.
Qed.
Lemma st_del_subset : forall id x (s : vstore V), In x (map fst (st_del id s)) -> In x (map fst s).
Proof.
  induction s as [|[i v] s IH]; cbn; [tauto|].
  destruct (beq id i); cbn; [intros H; right; exact (IH H)|]. intros [H|H]; [left; exact H|right; exact (IH H)].
Qed.
Lemma st_del_nodup : forall id (s : vstore V), NoDup (map fst s) -> NoDup (map fst (st_del id s)).
Proof.
  induction s as [|[i v] s IH]; intros ND; [constructor|].
  cbn in ND. inversion ND as [|? ? Ni ND']; subst. cbn. destruct (beq id i); [apply IH; exact ND'|].
  cbn. constructor; [|apply IH; exact ND']. intros H. apply Ni. eapply st_del_subset; exact H.
Qed.
Lemma st_put_nodup : forall id ov (s : vstore V), NoDup (map fst s) -> NoDup (map fst (st_put id ov s)).
Proof.
  intros id [v|] s ND; unfold st_put; [|apply st_del_nodup; exact ND].
  cbn. constructor; [apply st_del_notin|apply st_del_nodup; exact ND].
Qed.
Lemma fold_nodup : forall cs (s : vstore V), NoDup (map fst s) -> NoDup (map fst (fold_left apply_change cs s)).
Proof.
  induction cs as [|[[id b] a] r IH]; intros s ND; [exact ND|]. cbn [fold_left]. apply IH.
  unfold apply_change. apply st_put_nodup. exact ND.
Qed.

Lemma st_get_In : forall id v (s : vstore V), NoDup (map fst s) -> (st_get id s = Some v <-> In (id, v) s).
Proof.
  induction s as [|[i w] s IH]; intros ND; cbn.
  - split; [discriminate|tauto].
  - cbn in ND. inversion ND as [|? ? Ni ND']; subst. destruct (beq id i) eqn:E.
    + apply beq_eq in E. subst i. split.
      * intros H. inversion H. left; reflexivity.
      * intros [H|H]; [inversion H; reflexivity|]. exfalso. apply Ni. apply (in_map fst) in H. exact H.
    + rewrite (IH ND'). split; [tauto|]. intros [H|H]; [|exact H].
      inversion H; subst. rewrite beq_refl in E. discriminate.
Qed.

Lemma entries_of_In : forall (ix : index V) key id (s : vstore V),
  In (key, id) (entries_of ix s) <-> exists v, In (id, v) s /\ ikey ix v = Some key.
Proof.
  induction s as [|[i w] s IH]; cbn.
  - split; [tauto|intros [v [[] _]]].
  - destruct (ikey ix w) as [kw|] eqn:Ew; cbn; rewrite IH; split.
    + intros [H|[v [H1 H2]]]; [inversion H; subst; exists w; tauto|exists v; tauto].
    + intros [v [[H|H] H2]]; [inversion H; subst; left; congruence|right; exists v; tauto].
    + intros [v [H1 H2]]; exists v; tauto.
    + intros [v [[H|H] H2]]; [inversion H; subst; congruence|exists v; tauto].
Qed.

Lemma entries_of_nodup : forall (ix : index V) (s : vstore V), NoDup (map fst s) -> NoDup (entries_of ix s).
Proof.
  induction s as [|[i w] s IH]; intros ND; [constructor|].
  cbn in ND. inversion ND as [|? ? Ni ND']; subst. cbn. destruct (ikey ix w); [|apply IH; exact ND'].
  constructor; [|apply IH; exact ND']. intros H. apply entries_of_In in H as [v [H _]].
  apply Ni. apply (in_map fst) in H. exact H.
Qed.

(* ---- index_state ---- *)
Lemma inv_of_state : forall s d, index_state idxs s d -> inv s d.
Proof.
  intros s d [ND [NF [S K]]]. split; [apply sortedb_SS; exact S|]. split.
  - intros k. rewrite K. split.
    + intros [ix [[key id] [Hin [He E]]]]. apply entries_of_In in He as [v [Hv Hk]].
      exists ix, id, v, key. split; [exact Hin|]. split; [apply st_get_In; assumption|]. tauto.
    + intros [ix [id [v [key [Hin [Hg [Hk E]]]]]]]. exists ix, (key, id). split; [exact Hin|]. split; [|exact E].
      apply entries_of_In. exists v. split; [apply st_get_In; assumption|exact Hk].
  - intros id v Hg. apply st_get_In in Hg; [|exact ND]. eapply NF; exact Hg.
Qed.

Lemma state_of_inv : forall s d, NoDup (map fst s) -> inv s d -> index_state idxs s d.
Proof.
  intros s d ND [S [I NF]]. split; [exact ND|]. split; [|split; [apply SS_sortedb; exact S|]].
  - intros id v Hv. apply st_get_In in Hv; [|exact ND]. eapply NF; exact Hv.
  - intros k. rewrite I. split.
    + intros [ix [id [v [key [Hin [Hg [Hk E]]]]]]]. exists ix, (key, id). split; [exact Hin|]. split; [|exact E].
      apply entries_of_In. exists v. split; [apply st_get_In; assumption|exact Hk].
    + intros [ix [[key id] [Hin [He E]]]]. apply entries_of_In in He as [v [Hv Hk]].
      exists ix, id, v, key. split; [exact Hin|]. split; [apply st_get_In; assumption|]. tauto.
Qed.

Lemma state_slice_pf : forall s d ix,
  index_state idxs s d -> In ix idxs ->
  index_slice (iname ix) d (entries_of ix s) /\ NoDup (entries_of ix s) /\
  (forall e, In e (entries_of ix s) -> nul_free (snd e) = true).
Proof.
  intros s d ix [ND [NF [S Keys]]] Hin. split; [|split; [apply entries_of_nodup; exact ND|]].
  - split.
    + intros k Hk Hp. apply Keys in Hk as [ix' [e [Hin' [He E]]]].
      assert (ix' = ix).
      { eapply (NoDup_map_inj iname); try eassumption.
        subst k. unfold get_key in Hp. apply hp_exists in Hp as [t Et].
        rewrite <- app_assoc in Et. cbn in Et.
        apply first_sep_inj in Et as [En _]; [exact En| |]; apply colon_free_notin; apply names_cf; assumption. }
      subst ix'. exists e. tauto.
    + intros e He. apply Keys. exists ix, e. tauto.
  - intros [key id] He. apply entries_of_In in He as [v [Hv _]]. eapply NF; exact Hv.
Qed.

Lemma state_step_pf : forall s d id a,
  index_state idxs s d -> nul_free id = true ->
  index_state idxs (st_put id a s) (fst (update_idxs idxs id (st_get id s) a d false)).
Proof.
  intros s d id a St Nid. pose proof (inv_of_state s d St) as [S [I NF]].
  destruct (step_inv s d id (st_get id s) a I NF eq_refl Nid) as [I' NF'].
  apply state_of_inv.
  - apply st_put_nodup. destruct St as [ND _]. exact ND.
  - split; [apply update_idxs_SS; exact S|]. split; assumption.
Qed.

Lemma init_state : index_state idxs [] [].
Proof.
  split; [constructor|]. split; [intros id v []|]. split; [reflexivity|].
  intros k. split; [intros []|]. intros [ix [e [_ [[] _]]]].
Qed.

Lemma run_state : forall ncb cs s d,
  index_state idxs s d -> chain_ok s cs ->
  index_state idxs (fold_left apply_change cs s) (fst (run_changes idxs ncb d cs)).
Proof.
  intros ncb cs s d St C. apply state_of_inv.
  - apply fold_nodup. destruct St as [ND _]. exact ND.
  - apply run_inv; [apply inv_of_state; exact St|exact C].
Qed.

(* ---- the theorem ---- *)
Lemma index_invariant_pf : forall ncb (ms : list (mutation V)) st d es,
  muts_ids_nul_free ms = true ->
  run_history idxs ncb ms = (st, d, es) ->
  index_state idxs st d.
Proof.
  intros ncb ms st d es Hids Hrun. unfold run_history in Hrun.
  pose proof (run_state ncb (changes_of [] ms) [] [] init_state (changes_chain ms [] Hids)) as P.
  destruct (run_changes idxs ncb [] (changes_of [] ms)) as [d' es'] eqn:R.
  inversion Hrun; subst. exact P.
Qed.

End Inv.
