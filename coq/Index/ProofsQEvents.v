(* QueryStores that answer with events: the transformed events of
   IDToRIDCollectionTransformer / IDToRIDModelTransformer, applied by the client
   to the transformed old result, give the transformed new result. *)
From GoRes Require Import Index.QHandler Index.ProofsOrder.
From Coq Require Import Arith.
Open Scope N_scope.

Lemma insert_at_map : forall {A B} (f : A -> B) n x l,
  insert_at n (f x) (map f l) = map f (insert_at n x l).
Proof.
  induction n as [|n IH]; intros x l; destruct l; cbn; try reflexivity. f_equal. apply IH.
Qed.
Lemma remove_at_map : forall {A B} (f : A -> B) n l, remove_at n (map f l) = map f (remove_at n l).
Proof.
  induction n as [|n IH]; intros l; destruct l; cbn; try reflexivity. f_equal. apply IH.
Qed.

Definition is_addrem (e : revent) : bool :=
  match e with EvAdd _ i | EvRemove _ i => (0 <=? i)%Z | _ => false end.

Lemma raw_step_addrem : forall e l l', raw_step e l = Some l' -> is_addrem e = true.
Proof.
  intros e l l' H. destruct e; cbn in *; try discriminate.
  - destruct (0 <=? idx)%Z; [reflexivity|discriminate].
  - destruct (0 <=? idx)%Z; [reflexivity|discriminate].
Qed.

Lemma raw_apply_addrem : forall evs l l', raw_apply evs l = Some l' -> forallb is_addrem evs = true.
Proof.
  induction evs as [|e r IH]; intros l l' H; [reflexivity|].
  cbn in H. destruct (raw_step e l) as [l1|] eqn:E; [|discriminate].
  cbn. rewrite (raw_step_addrem e l l1 E). cbn. eapply IH; exact H.
Qed.

Lemma addrem_transformable : forall tr evs, forallb is_addrem evs = true -> events_transformable tr evs = true.
Proof.
  intros tr evs H. destruct tr; cbn; [reflexivity| |];
    (induction evs as [|e r IH]; [reflexivity|]; cbn in H; apply andb_true_iff in H as [He Hr];
     cbn [forallb]; rewrite (IH Hr); destruct e; cbn in He; try discriminate; reflexivity).
Qed.

Section Ev.
Context {C Q : Type}.
Variable h : qhandler C Q.

(* ---- collections ---- *)
Lemma response_coll : forall evs,
  h_type h = TCollection -> forallb is_addrem evs = true -> response_events h evs = Some evs.
Proof.
  intros evs Ty. induction evs as [|e r IH]; intros H; [reflexivity|].
  cbn in H. apply andb_true_iff in H as [He Hr]. cbn [response_events].
  destruct e; cbn in He; try discriminate; rewrite Ty.
  - destruct (Z.ltb_spec idx 0); [apply Z.leb_le in He; lia|]. rewrite (IH Hr). reflexivity.
  - destruct (Z.ltb_spec idx 0); [apply Z.leb_le in He; lia|]. rewrite (IH Hr). reflexivity.
Qed.

Definition map_adds (f : bytes -> bytes) (evs : list revent) : list revent :=
  map (fun e => match e with EvAdd v i => EvAdd (f v) i | _ => e end) evs.

Lemma map_adds_addrem : forall f evs, forallb is_addrem (map_adds f evs) = forallb is_addrem evs.
Proof.
  unfold map_adds. induction evs as [|e r IH]; [reflexivity|]. cbn [map forallb]. rewrite IH. destruct e; reflexivity.
Qed.

Lemma apply_coll_map : forall (f : bytes -> bytes) evs l l',
  raw_apply evs l = Some l' ->
  apply_events (VColl (map f l)) (map_adds f evs) = Some (VColl (map f l')).
Proof.
  induction evs as [|e r IH]; intros l l' H.
  - cbn in *. inversion H. reflexivity.
  - cbn [raw_apply] in H. destruct (raw_step e l) as [l1|] eqn:E; [|discriminate].
    cbn [map_adds map apply_events]. destruct e; unfold raw_step in E; try discriminate.
    + cbn [apply_event]. rewrite map_length.
      destruct ((0 <=? idx)%Z && (Z.to_nat idx <=? length l)%nat); [|discriminate].
      inversion E; subst l1. rewrite insert_at_map. apply IH. exact H.
    + cbn [apply_event]. rewrite map_length.
      destruct ((0 <=? idx)%Z && (Z.to_nat idx <? length l)%nat); cbn [andb] in E; [|discriminate].
      destruct (beq (nth (Z.to_nat idx) l []) v); [|discriminate].
      inversion E; subst l1. rewrite remove_at_map. apply IH. exact H.
Qed.

Lemma apply_coll_id : forall evs l l',
  raw_apply evs l = Some l' -> apply_events (VColl l) evs = Some (VColl l').
Proof.
  intros evs l l' H. pose proof (apply_coll_map (fun x => x) evs l l' H) as P.
  rewrite !map_id in P. replace (map_adds (fun x => x) evs) with evs in P; [exact P|].
  clear. unfold map_adds. induction evs as [|e r IH]; [reflexivity|]. cbn [map]. rewrite <- IH. destruct e; reflexivity.
Qed.

(* ---- models ---- *)
Lemma memb_insert : forall k n x l, memb k (insert_at n x l) = beq k x || memb k l.
Proof.
  unfold memb. induction n as [|n IH]; intros x l; destruct l as [|y l]; cbn; try reflexivity.
  rewrite IH. destruct (beq k x); destruct (beq k y); reflexivity.
Qed.

Lemma memb_In : forall k l, memb k l = true <-> In k l.
Proof.
  intros k l. unfold memb. rewrite existsb_exists. split.
  - intros [x [Hx E]]. apply beq_eq in E. subst. exact Hx.
  - intros H. exists k. split; [exact H|apply beq_refl].
Qed.

Lemma memb_cons : forall k y l, memb k (y :: l) = beq k y || memb k l.
Proof. reflexivity. Qed.

Lemma memb_remove : forall k n l,
  NoDup l -> (n < length l)%nat ->
  memb k (remove_at n l) = memb k l && negb (beq k (nth n l [])).
Proof.
  induction n as [|n IH]; intros l ND L; destruct l as [|y l]; cbn in L; try lia.
  - cbn [remove_at nth]. inversion ND as [|? ? Ny ND']; subst. rewrite memb_cons.
    destruct (beq k y) eqn:E; cbn [orb negb].
    + apply beq_eq in E. subst. rewrite andb_false_r.
      destruct (memb y l) eqn:M; [|reflexivity]. apply memb_In in M. contradiction.
    + rewrite andb_true_r. reflexivity.
  - cbn [remove_at nth]. inversion ND as [|? ? Ny ND']; subst. rewrite !memb_cons.
    rewrite IH by (try assumption; lia).
    destruct (beq k y) eqn:E; cbn [orb]; [|reflexivity].
    apply beq_eq in E. subst.
    destruct (beq y (nth n l [])) eqn:E2; [|cbn [negb]; rewrite andb_true_r; reflexivity].
    apply beq_eq in E2. exfalso. apply Ny. rewrite E2. apply nth_In. lia.
Qed.

(* the last event on id k: Some true = add, Some false = remove *)
Fixpoint last_ev (k : bytes) (evs : list revent) : option bool :=
  match evs with
  | [] => None
  | e :: r =>
    match last_ev k r with
    | Some b => Some b
    | None => match e with
              | EvAdd v _ => if beq k v then Some true else None
              | EvRemove v _ => if beq k v then Some false else None
              | _ => None
              end
    end
  end.

Lemma memb_after : forall k evs l l',
  raw_nodup evs l -> raw_apply evs l = Some l' ->
  memb k l' = match last_ev k evs with Some b => b | None => memb k l end.
Proof.
  induction evs as [|e r IH]; intros l l' ND H.
  - cbn in *. inversion H. reflexivity.
  - cbn [raw_apply] in H. cbn [raw_nodup] in ND. destruct ND as [NDl ND].
    destruct (raw_step e l) as [l1|] eqn:E; [|discriminate].
    rewrite (IH l1 l' ND H). cbn [last_ev]. destruct (last_ev k r); [reflexivity|].
    destruct e; unfold raw_step in E; try discriminate.
    + destruct ((0 <=? idx)%Z && (Z.to_nat idx <=? length l)%nat); [|discriminate].
      inversion E; subst l1. rewrite memb_insert. destruct (beq k v); reflexivity.
    + destruct (0 <=? idx)%Z; cbn [andb] in E; [|discriminate].
      destruct (Nat.ltb_spec (Z.to_nat idx) (length l)) as [L|L]; cbn [andb] in E; [|discriminate].
      destruct (beq (nth (Z.to_nat idx) l []) v) eqn:En; [|discriminate].
      inversion E; subst l1. apply beq_eq in En. rewrite memb_remove by assumption. rewrite En.
      destruct (beq k v); [rewrite andb_false_r|rewrite andb_true_r]; reflexivity.
Qed.

Lemma model_of_lookup_gen : forall f k l m0,
  alookup k (fold_left (fun m id => (id, f id) :: m) l m0) =
  if memb k l then Some (f k) else alookup k m0.
Proof.
  induction l as [|x l IH]; intros m0; [reflexivity|].
  cbn [fold_left]. rewrite IH. unfold memb. cbn [existsb alookup].
  destruct (existsb (beq k) l); [rewrite orb_true_r; reflexivity|].
  rewrite orb_false_r. destruct (beq k x) eqn:E; [|reflexivity]. apply beq_eq in E. subst. reflexivity.
Qed.
Lemma model_of_lookup : forall f k l, alookup k (model_of f l) = if memb k l then Some (f k) else None.
Proof. intros. unfold model_of. rewrite model_of_lookup_gen. reflexivity. Qed.

(* first entry for k in a change list *)
Fixpoint ch_find (k : bytes) (ch : list (bytes * option bytes)) : option (option bytes) :=
  match ch with
  | [] => None
  | (k', ov) :: r => if beq k k' then Some ov else ch_find k r
  end.

Lemma alookup_filter_ne : forall k k0 (m : amap),
  alookup k (filter (fun kv => negb (beq k0 (fst kv))) m) = if beq k k0 then None else alookup k m.
Proof.
  induction m as [|[k1 v1] m IH]; cbn.
  - destruct (beq k k0); reflexivity.
  - destruct (beq k0 k1) eqn:E1; cbn.
    + apply beq_eq in E1. subst k1. rewrite IH. destruct (beq k k0); reflexivity.
    + rewrite IH. destruct (beq k k1) eqn:E2; [|reflexivity].
      apply beq_eq in E2. subst k1. destruct (beq k k0) eqn:E3; [|reflexivity].
      apply beq_eq in E3. subst. rewrite beq_refl in E1. discriminate.
Qed.

Lemma apply_changes_lookup : forall k ch m,
  alookup k (apply_changes ch m) = match ch_find k ch with Some ov => ov | None => alookup k m end.
Proof.
  induction ch as [|[k0 ov] r IH]; intros m; [reflexivity|].
  cbn [apply_changes ch_find]. destruct ov as [v|].
  - cbn [alookup]. destruct (beq k k0); [reflexivity|apply IH].
  - rewrite alookup_filter_ne. destruct (beq k k0); [reflexivity|apply IH].
Qed.

Lemma model_changes_find_gen : forall f k evs ch0,
  ch_find k (fold_left (fun ch e => match e with
                                    | EvAdd v _ => (v, Some (f v)) :: ch
                                    | EvRemove v _ => (v, None) :: ch
                                    | _ => ch
                                    end) evs ch0) =
  match last_ev k evs with
  | Some true => Some (Some (f k))
  | Some false => Some None
  | None => ch_find k ch0
  end.
Proof.
  induction evs as [|e r IH]; intros ch0; [reflexivity|].
  cbn [fold_left last_ev]. rewrite IH. destruct (last_ev k r) as [[|]|]; try reflexivity.
  destruct e; cbn [ch_find]; try reflexivity.
  - destruct (beq k v) eqn:E; [|reflexivity]. apply beq_eq in E. subst. reflexivity.
  - destruct (beq k v); reflexivity.
Qed.

Lemma model_after : forall f evs l l',
  raw_nodup evs l -> raw_apply evs l = Some l' ->
  forall k, alookup k (apply_changes (model_changes f evs) (model_of f l)) = alookup k (model_of f l').
Proof.
  intros f evs l l' ND H k. rewrite apply_changes_lookup. unfold model_changes.
  rewrite model_changes_find_gen. rewrite !model_of_lookup. rewrite (memb_after k evs l l' ND H).
  destruct (last_ev k evs) as [[|]|]; reflexivity.
Qed.

End Ev.
