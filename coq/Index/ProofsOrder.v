(* Bytewise order, prefixes, prefix successor, the sorted key space. *)
From GoRes Require Import Index.Spec.
From Coq Require Import Sorting.Sorted.
Open Scope N_scope.

Lemma beq_refl : forall a, beq a a = true.
Proof. induction a as [|x a IH]; cbn; [reflexivity|]. rewrite N.eqb_refl, IH. reflexivity. Qed.

Lemma beq_eq : forall a b, beq a b = true <-> a = b.
Proof.
  induction a as [|x a IH]; intros [|y b]; cbn; split; intro H; try reflexivity; try discriminate.
  - apply andb_true_iff in H as [H1 H2]. apply N.eqb_eq in H1. apply IH in H2. congruence.
  - inversion H; subst. rewrite N.eqb_refl. cbn. apply beq_refl.
Qed.

Lemma beq_neq : forall a b, beq a b = false <-> a <> b.
Proof.
  intros a b. split.
  - intros H E. apply beq_eq in E. congruence.
  - intros H. destruct (beq a b) eqn:E; [|reflexivity]. apply beq_eq in E. contradiction.
Qed.

Lemma blt_nil_r : forall a, blt a [] = false.
Proof. destruct a; reflexivity. Qed.

Lemma blt_cons : forall x a y b,
  blt (x :: a) (y :: b) = if x <? y then true else if x =? y then blt a b else false.
Proof. reflexivity. Qed.

Lemma blt_irrefl : forall a, blt a a = false.
Proof.
  induction a as [|x a IH]; [reflexivity|]. rewrite blt_cons, N.ltb_irrefl, N.eqb_refl. exact IH.
Qed.

Lemma blt_trans : forall a b c, blt a b = true -> blt b c = true -> blt a c = true.
Proof.
  induction a as [|x a IH]; intros [|y b] [|z c] H1 H2; try discriminate; try reflexivity.
  rewrite blt_cons in *.
    destruct (N.ltb_spec x y) as [Lxy|Lxy].
    + destruct (N.ltb_spec y z) as [Lyz|Lyz].
      * destruct (N.ltb_spec x z); [reflexivity|lia].
      * destruct (N.eqb_spec y z) as [E|E]; [|discriminate]. subst.
        destruct (N.ltb_spec x z); [reflexivity|lia].
    + destruct (N.eqb_spec x y) as [E|E]; [|discriminate]. subst.
      destruct (N.ltb_spec y z) as [Lyz|Lyz]; [reflexivity|].
      destruct (N.eqb_spec y z) as [E|E]; [|discriminate]. eapply IH; eassumption.
Qed.

Lemma blt_total : forall a b, blt a b = true \/ a = b \/ blt b a = true.
Proof.
  induction a as [|x a IH]; intros [|y b].
  - right; left; reflexivity.
  - left; reflexivity.
  - right; right; reflexivity.
  - rewrite !blt_cons.
    destruct (N.ltb_spec x y) as [L|L]; [left; reflexivity|].
    destruct (N.ltb_spec y x) as [L'|L']; [right; right; reflexivity|].
    assert (x = y) by lia. subst. rewrite N.eqb_refl.
    destruct (IH b) as [H|[H|H]]; [left; exact H|right; left; congruence|right; right; exact H].
Qed.

Lemma blt_asym : forall a b, blt a b = true -> blt b a = false.
Proof.
  intros a b H. destruct (blt b a) eqn:E; [|reflexivity].
  pose proof (blt_trans _ _ _ H E) as T. rewrite blt_irrefl in T. discriminate.
Qed.

Lemma blt_neq : forall a b, blt a b = true -> a <> b.
Proof. intros a b H E. subst. rewrite blt_irrefl in H. discriminate. Qed.

(* a <= b, b < c -> a < c *)
Lemma ble_lt_trans : forall a b c, blt b a = false -> blt b c = true -> blt a c = true.
Proof.
  intros a b c H1 H2. destruct (blt_total a b) as [H|[H|H]].
  - eapply blt_trans; eassumption.
  - subst; assumption.
  - congruence.
Qed.
Lemma lt_le_trans : forall a b c, blt a b = true -> blt c b = false -> blt a c = true.
Proof.
  intros a b c H1 H2. destruct (blt_total b c) as [H|[H|H]].
  - eapply blt_trans; eassumption.
  - subst; assumption.
  - congruence.
Qed.

Lemma blt_app : forall p a b, blt (p ++ a) (p ++ b) = blt a b.
Proof.
  induction p as [|x p IH]; intros; [reflexivity|].
  cbn [app]. rewrite blt_cons, N.ltb_irrefl, N.eqb_refl. apply IH.
Qed.

(* ---- prefixes ---- *)
Lemma hp_app : forall p a, has_prefix p (p ++ a) = true.
Proof. induction p as [|x p IH]; intros; cbn; [reflexivity|]. rewrite N.eqb_refl. apply IH. Qed.

Lemma hp_exists : forall p k, has_prefix p k = true <-> exists t, k = p ++ t.
Proof.
  induction p as [|x p IH]; intros k; cbn.
  - split; [intros _; exists k; reflexivity|reflexivity].
  - destruct k as [|y k]; [split; [discriminate|intros [t H]; discriminate]|].
    split.
    + intros H. apply andb_true_iff in H as [H1 H2]. apply N.eqb_eq in H1. subst.
      apply IH in H2 as [t ->]. exists t. reflexivity.
    + intros [t H]. inversion H; subst. rewrite N.eqb_refl. cbn. apply hp_app.
Qed.

Lemma hp_app_strip : forall p a t, has_prefix (p ++ a) (p ++ t) = has_prefix a t.
Proof. induction p as [|x p IH]; intros; cbn; [reflexivity|]. rewrite N.eqb_refl. apply IH. Qed.

Lemma hp_app_l : forall p a k, has_prefix (p ++ a) k = true -> has_prefix p k = true.
Proof.
  intros p a k H. apply hp_exists in H as [t ->]. rewrite <- app_assoc. apply hp_app.
Qed.

Lemma hp_length : forall p k, has_prefix p k = true -> (length p <= length k)%nat.
Proof. intros p k H. apply hp_exists in H as [t ->]. rewrite app_length. lia. Qed.

(* a key with the prefix is not below the prefix *)
Lemma hp_not_lt : forall p x, has_prefix p x = true -> blt x p = false.
Proof.
  intros p x H. apply hp_exists in H as [t ->].
  rewrite <- (app_nil_r p) at 2. rewrite blt_app. apply blt_nil_r.
Qed.

(* y >= p without the prefix is above every key with the prefix *)
Lemma ge_noprefix_gt : forall p y z,
  blt y p = false -> has_prefix p y = false -> has_prefix p z = true -> blt z y = true.
Proof.
  induction p as [|c p IH]; intros y z H1 H2 H3; [discriminate|].
  destruct y as [|d y]; [discriminate|].
  destruct z as [|e z]; [discriminate|].
  cbn in H3. apply andb_true_iff in H3 as [E H3]. apply N.eqb_eq in E. subst e.
  rewrite blt_cons in H1. rewrite blt_cons. cbn in H2.
  destruct (N.ltb_spec d c) as [L|L]; [discriminate|].
  destruct (N.ltb_spec c d) as [L'|L']; [reflexivity|].
  assert (c = d) by lia. subst d. rewrite N.eqb_refl in *. cbn in H2.
  eapply IH; eassumption.
Qed.

(* ---- prefix successor ---- *)
Lemma psucc_gt : forall p s x, psucc p = Some s -> has_prefix p x = true -> blt x s = true.
Proof.
  induction p as [|c p IH]; intros s x H1 H2; [discriminate|].
  destruct x as [|d x]; [discriminate|].
  cbn in H2. apply andb_true_iff in H2 as [E H2]. apply N.eqb_eq in E. subst d.
  cbn in H1. destruct (psucc p) as [s'|] eqn:Es.
  - inversion H1; subst. rewrite blt_cons, N.ltb_irrefl, N.eqb_refl. eapply IH; [reflexivity|exact H2].
  - destruct (c =? xff); [discriminate|]. inversion H1; subst.
    rewrite blt_cons. destruct (N.ltb_spec c (c + 1)); [reflexivity|lia].
Qed.

Lemma psucc_none_ff : forall p, psucc p = None -> forallb (fun c => c =? xff) p = true.
Proof.
  induction p as [|c p IH]; intros H; [reflexivity|].
  cbn in H. destruct (psucc p); [discriminate|].
  destruct (c =? xff) eqn:E; [|discriminate]. cbn. rewrite E. apply IH. reflexivity.
Qed.

Lemma allff_ge_prefix : forall p y,
  forallb (fun c => c =? xff) p = true -> bytes_ok y = true -> blt y p = false -> has_prefix p y = true.
Proof.
  induction p as [|c p IH]; intros y H1 H2 H3; [reflexivity|].
  cbn in H1. apply andb_true_iff in H1 as [E H1]. apply N.eqb_eq in E. subst c.
  destruct y as [|d y]; [discriminate|].
  cbn in H2. apply andb_true_iff in H2 as [B H2]. apply N.ltb_lt in B.
  rewrite blt_cons in H3. cbn. unfold xff in *.
  destruct (N.ltb_spec d 255) as [L|L]; [discriminate|].
  assert (d = 255) by lia. subst d. cbn in H3. cbn. apply IH; assumption.
Qed.

(* real bytes: p <= y < successor p  ->  y has prefix p *)
Lemma psucc_between : forall p s y,
  psucc p = Some s -> bytes_ok y = true -> blt y p = false -> blt y s = true -> has_prefix p y = true.
Proof.
  induction p as [|c p IH]; intros s y H1 B H2 H3; [discriminate|].
  destruct y as [|d y]; [discriminate|].
  cbn in B. apply andb_true_iff in B as [Bd B].
  cbn in H1. rewrite blt_cons in H2. destruct (psucc p) as [s'|] eqn:Es.
  - inversion H1; subst. rewrite blt_cons in H3. cbn.
    destruct (N.ltb_spec d c) as [L|L]; [discriminate|].
    destruct (N.eqb_spec d c) as [E|E]; [|discriminate].
    subst. rewrite N.eqb_refl. cbn.
    eapply IH; [reflexivity|assumption|assumption|assumption].
  - destruct (c =? xff) eqn:Ec; [discriminate|]. inversion H1; subst.
    rewrite blt_cons in H3. cbn.
    destruct (N.ltb_spec d c) as [L|L]; [discriminate|].
    destruct (N.eqb_spec d c) as [E|E].
    + subst. rewrite N.eqb_refl. cbn. apply allff_ge_prefix; [apply psucc_none_ff; assumption|assumption|assumption].
    + destruct (N.ltb_spec d (c + 1)) as [L'|L']; [lia|].
      destruct (N.eqb_spec d (c + 1)); [|discriminate]. rewrite blt_nil_r in H3. discriminate.
Qed.

(* ---- the sorted key space ---- *)
Definition bltP (a b : bytes) : Prop := blt a b = true.

Lemma sortedb_SS : forall d, sortedb d = true -> StronglySorted bltP d.
Proof.
  induction d as [|x d IH]; intros H; [constructor|].
  assert (Hd : sortedb d = true).
  { cbn in H. destruct d as [|y d']; [reflexivity|]. apply andb_true_iff in H as [_ H]. exact H. }
  specialize (IH Hd). constructor; [exact IH|].
  destruct d as [|y d']; [constructor|].
  cbn in H. apply andb_true_iff in H as [Hxy _].
  inversion IH as [|? ? SS FA]; subst. constructor; [exact Hxy|].
  eapply Forall_impl; [|exact FA]. intros z Hz. unfold bltP in *. eapply blt_trans; eassumption.
Qed.

Lemma SS_sortedb : forall d, StronglySorted bltP d -> sortedb d = true.
Proof.
  induction d as [|x d IH]; intros H; [reflexivity|].
  inversion H as [|? ? SS FA]; subst. cbn. destruct d as [|y d']; [reflexivity|].
  inversion FA; subst. apply andb_true_iff. split; [assumption|apply IH; assumption].
Qed.

Lemma SS_filter : forall (f : bytes -> bool) d, StronglySorted bltP d -> StronglySorted bltP (filter f d).
Proof.
  induction d as [|x d IH]; intros H; [constructor|].
  inversion H as [|? ? SS FA]; subst. cbn. destruct (f x).
  - constructor; [apply IH; assumption|].
    apply Forall_forall. intros z Hz. apply filter_In in Hz as [Hz _].
    rewrite Forall_forall in FA. apply FA; assumption.
  - apply IH; assumption.
Qed.

(* membership in db_set / db_del *)
Lemma db_set_In : forall k x d, In k (db_set x d) <-> k = x \/ In k d.
Proof.
  induction d as [|y d IH]; cbn.
  - intuition congruence.
  - destruct (blt x y); cbn; [intuition congruence|].
    destruct (beq x y) eqn:E.
    + apply beq_eq in E. subst. cbn. intuition congruence.
    + cbn. rewrite IH. intuition congruence.
Qed.

Lemma db_del_In : forall k x d, In k (db_del x d) <-> In k d /\ k <> x.
Proof.
  induction d as [|y d IH]; cbn.
  - tauto.
  - destruct (beq x y) eqn:E.
    + apply beq_eq in E. subst. rewrite IH. intuition congruence.
    + apply beq_neq in E. cbn. rewrite IH. intuition congruence.
Qed.

Lemma db_del_SS : forall x d, StronglySorted bltP d -> StronglySorted bltP (db_del x d).
Proof.
  induction d as [|y d IH]; intros H; [constructor|].
  inversion H as [|? ? SS FA]; subst. cbn. destruct (beq x y).
  - apply IH; assumption.
  - constructor; [apply IH; assumption|].
    apply Forall_forall. intros z Hz. apply db_del_In in Hz as [Hz _].
    rewrite Forall_forall in FA. apply FA; assumption.
Qed.

Lemma db_set_SS : forall x d, StronglySorted bltP d -> StronglySorted bltP (db_set x d).
Proof.
  induction d as [|y d IH]; intros H.
  - cbn. constructor; constructor.
  - inversion H as [|? ? SS FA]; subst. cbn. destruct (blt x y) eqn:L.
    + constructor; [exact H|]. constructor; [exact L|].
      eapply Forall_impl; [|exact FA]. intros z Hz. unfold bltP in *. eapply blt_trans; eassumption.
    + destruct (beq x y) eqn:E; [exact H|].
      apply beq_neq in E.
      assert (Lyx : blt y x = true).
      { destruct (blt_total x y) as [T|[T|T]]; [congruence|contradiction|exact T]. }
      constructor; [apply IH; assumption|].
      apply Forall_forall. intros z Hz. apply db_set_In in Hz as [Hz|Hz].
      * subst. exact Lyx.
      * rewrite Forall_forall in FA. apply FA; assumption.
Qed.
