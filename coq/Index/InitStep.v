(* Store.Init as a history step ([SInit] of Index/RunCommon.v): what it writes,
   and that the C13 / C14 theorems cover histories containing it. *)
From GoRes Require Import Index.RunCommon Index.Proofs Index.ProofsOrder Index.ProofsInv.
Open Scope N_scope.

Definition seed_create (p : bytes * val) : mutation val := MCreate (fst p) (snd p).
Definition seed_change (p : bytes * val) : change val := (fst p, None, Some (snd p)).
Definition seed_absent (st : vstore val) (p : bytes * val) : bool := negb (is_some (st_get (fst p) st)).

Lemma flatten_init_initialised : forall seeds, flatten_steps true [SInit seeds] = ([], true).
Proof. reflexivity. Qed.

Lemma flatten_init_fresh : forall seeds, flatten_steps false [SInit seeds] = (map seed_create seeds, true).
Proof. intros. cbn. rewrite app_nil_r. reflexivity. Qed.

Lemma seeds_changes : forall (seeds : list (bytes * val)) (st : vstore val),
  NoDup (map fst seeds) -> (forall p, In p seeds -> is_nil (fst p) = false) ->
  changes_of st (map seed_create seeds) = map seed_change (filter (seed_absent st) seeds).
Proof.
  induction seeds as [|[id v] r IH]; intros st ND NE; [reflexivity|].
  cbn [map fst] in ND. inversion ND as [|? ? Nid ND']; subst.
  assert (NE' : forall p, In p r -> is_nil (fst p) = false) by (intros p Hp; apply NE; right; exact Hp).
  cbn [map seed_create fst snd changes_of mut_change filter]. unfold seed_absent at 1. cbn [fst].
  destruct (st_get id st) as [w|] eqn:G; cbn [is_some negb].
  - apply IH; assumption.
  - pose proof (NE (id, v) (or_introl eq_refl)) as Hne. cbn [fst] in Hne. rewrite Hne.
    cbn [map seed_change fst snd]. f_equal.
    rewrite (IH _ ND' NE'). f_equal. apply filter_ext_in. intros [id' v'] Hin.
    unfold seed_absent, apply_change. cbn [fst]. rewrite st_get_put.
    destruct (beq id' id) eqn:E; [|reflexivity]. apply beq_eq in E. subst id'.
    exfalso. apply Nid. apply (in_map fst) in Hin. exact Hin.
Qed.

(* (1) what an Init step writes *)
Lemma init_step_writes_absent_only_pf : forall (seeds : list (bytes * val)) (st : vstore val),
  NoDup (map fst seeds) -> (forall p, In p seeds -> is_nil (fst p) = false) ->
  (* on an initialised store: nothing *)
  flatten_steps true [SInit seeds] = ([], true) /\
  (* otherwise: one create per seed, and the store is initialised afterwards *)
  flatten_steps false [SInit seeds] = (map seed_create seeds, true) /\
  (* of which exactly those of the absent ids take effect, each once, in seed order *)
  changes_of st (map seed_create seeds) = map seed_change (filter (seed_absent st) seeds) /\
  NoDup (map (fun c => fst (fst c)) (changes_of st (map seed_create seeds))).
Proof.
  intros seeds st ND NE. split; [apply flatten_init_initialised|]. split; [apply flatten_init_fresh|].
  split; [apply seeds_changes; assumption|]. rewrite seeds_changes by assumption.
  rewrite map_map. cbn [seed_change fst].
  clear NE. induction seeds as [|[id v] r IH]; [constructor|].
  cbn [map fst] in ND. inversion ND as [|? ? Nid ND']; subst. cbn [filter].
  destruct (seed_absent st (id, v)); [|apply IH; exact ND'].
  cbn [map fst]. constructor; [|apply IH; exact ND'].
  intros Hin. apply Nid. apply in_map_iff in Hin as [[id' v'] [E Hp]]. cbn in E. subst id'.
  apply filter_In in Hp as [Hp _]. apply (in_map fst) in Hp. exact Hp.
Qed.

(* (2) histories with Init steps: index invariant and query_spec *)
Lemma init_step_preserves_invariant_pf : forall (ixs : list (index val)) ncb (steps : list step) inited st d es,
  names_ok ixs ->
  muts_ids_nul_free (fst (flatten_steps inited steps)) = true ->
  run_history ixs ncb (fst (flatten_steps inited steps)) = (st, d, es) ->
  index_state ixs st d /\
  forall q : iquery val, In (qidx q) ixs ->
    entries_nul_free (entries_of (qidx q) st) = true ->
    (qrev q = true -> db_bytes_ok d = true) ->
    ((qlimit q < 0)%Z -> (Z.of_nat (length d) < max_int)%Z) ->
    fetch_collection d q = FOk (spec_query q (entries_of (qidx q) st)).
Proof.
  intros ixs ncb steps inited st d es Hn Hids Hrun. split.
  - eapply Proofs.index_invariant_pf; eassumption.
  - intros q Hin NF Hb Hl. eapply Proofs.query_after_history_pf; eassumption.
Qed.

(* (3) the query-change callbacks of an Init step are those of the creates it performs *)
Lemma init_step_callbacks_pf : forall (ixs : list (index val)) ncb (seeds : list (bytes * val)) st d j,
  NoDup (map fst seeds) -> (forall p, In p seeds -> is_nil (fst p) = false) ->
  cb_log j (snd (run_changes ixs ncb d (changes_of st (fst (flatten_steps false [SInit seeds]))))) =
    (if (j <? ncb)%nat then filter (key_changed ixs) (map seed_change (filter (seed_absent st) seeds)) else []) /\
  cb_log j (snd (run_changes ixs ncb d (changes_of st (fst (flatten_steps true [SInit seeds]))))) = [].
Proof.
  intros ixs ncb seeds st d j ND NE. split.
  - rewrite flatten_init_fresh. cbn [fst]. rewrite Proofs.callbacks_once_pf, seeds_changes by assumption. reflexivity.
  - rewrite flatten_init_initialised. reflexivity.
Qed.
