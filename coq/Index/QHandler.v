(* store/querystorehandler.go and the QueryTransformers of store/transformer.go,
   as the code is: QueryHandler.SetOption / onRegister, getResource and
   getQueryResource, the OnQueryChange callbacks changeHandler /
   queryChangeHandler (AffectedResources or the handler's own pattern,
   Service.Resource, RequestHandler / QueryRequestHandler, QueryChange.Events,
   reset => system.reset resp. a re-run of the query answered as model /
   collection, events => transformed and sent as resource events resp. as the
   events of the query response, nothing when there are none), and what a
   gateway client holds afterwards.  Generic in the QueryStore (any Query /
   Events implementation); [bs_store] is badgerstore's.  No proofs here.

   Not a go-res panic but a Go one: a panic inside changeHandler /
   queryChangeHandler happens on the index worker goroutine (nothing recovers
   it), a panic inside a query request callback is recovered by the service and
   answered with an error. *)
From GoRes Require Export Index.Spec.
Open Scope N_scope.

Inductive rtype := TModel | TCollection.

(* what is sent / held for a resource: a collection of values (ids or resource
   references) or a model key -> reference (an association list, head wins) *)
Inductive rvalue := VColl (l : list bytes) | VModel (m : amap).

(* store.ResultEvent *)
Inductive revent :=
| EvAdd (v : bytes) (idx : Z)
| EvRemove (v : bytes) (idx : Z)                    (* v: the removed id (ResultEvent.Value) *)
| EvChange (ch : list (bytes * option bytes))       (* None = res.DeleteAction *)
| EvOther                                           (* any other event name *)
| EvBad (is_add : bool) (idx : Z).                  (* an add / remove event whose Value is not a string *)

(* ---- the QueryStore the handler reads ---- *)
Record qstore (St C Q : Type) := QS {
  qs_query : St -> Q -> option (list bytes);               (* Query; None = error *)
  qs_events : C -> Q -> option (list revent * bool)       (* QueryChange.Events: events, reset; None = error *)
}.
Arguments QS {St C Q}.
Arguments qs_query {St C Q}.
Arguments qs_events {St C Q}.

(* ---- store/transformer.go ---- *)
Inductive qtrans :=
| TrNone                                 (* no Transformer *)
| TrColl (f : bytes -> bytes)            (* IDToRIDCollectionTransformer *)
| TrModel (f : bytes -> bytes).          (* IDToRIDModelTransformer *)

(* refs[id] = Ref(t(id)) for every id in order: a later duplicate overwrites *)
Definition model_of (f : bytes -> bytes) (ids : list bytes) : amap :=
  fold_left (fun m id => (id, f id) :: m) ids [].

Definition transform_result (tr : qtrans) (ids : list bytes) : rvalue :=
  match tr with
  | TrNone => VColl ids
  | TrColl f => VColl (map f ids)
  | TrModel f => VModel (model_of f ids)
  end.

(* ch[id] = ... in event order: a later event on the same id overwrites *)
Definition model_changes (f : bytes -> bytes) (evs : list revent) : list (bytes * option bytes) :=
  fold_left (fun ch e => match e with
                         | EvAdd v _ => (v, Some (f v)) :: ch
                         | EvRemove v _ => (v, None) :: ch
                         | _ => ch
                         end) evs [].

Definition transform_events (tr : qtrans) (evs : list revent) : list revent :=
  match tr with
  | TrNone => evs
  | TrColl f => map (fun e => match e with EvAdd v i => EvAdd (f v) i | _ => e end) evs
  | TrModel f => match evs with [] => [] | _ => [EvChange (model_changes f evs)] end
  end.

(* the type assertions of TransformEvents: IDToRIDCollectionTransformer needs
   string values in add events, IDToRIDModelTransformer in add and remove events *)
Definition events_transformable (tr : qtrans) (evs : list revent) : bool :=
  match tr with
  | TrNone => true
  | TrColl _ => forallb (fun e => match e with EvBad true _ => false | _ => true end) evs
  | TrModel _ => forallb (fun e => match e with EvBad _ _ => false | _ => true end) evs
  end.

(* ---- the handler ---- *)
Record qhandler (C Q : Type) := QH {
  h_type : rtype;
  h_pattern : bytes;
  h_wild : bool;                                           (* the pattern has a placeholder or wildcard *)
  h_qrh : option (bytes -> bytes -> option (Q * bytes));   (* QueryRequestHandler: resource, client query -> query, normalized query *)
  h_rh : option (bytes -> option Q);                       (* RequestHandler: resource (its path params) -> query *)
  h_nilq : Q;                                              (* the nil url.Values used without a RequestHandler *)
  h_resource : bytes -> bool;                              (* Service.Resource(rid) finds a handler *)
  h_trans : qtrans;
  h_ar : option (C -> list bytes)                          (* AffectedResources(pattern, change) *)
}.
Arguments QH {C Q}.
Arguments h_type {C Q}.
Arguments h_pattern {C Q}.
Arguments h_wild {C Q}.
Arguments h_qrh {C Q}.
Arguments h_rh {C Q}.
Arguments h_nilq {C Q}.
Arguments h_resource {C Q}.
Arguments h_trans {C Q}.
Arguments h_ar {C Q}.

Section Handler.
Context {St C Q : Type}.
Variable qs : qstore St C Q.
Variable h : qhandler C Q.

(* SetOption and onRegister: true = they panic (both request handlers set; a
   pattern with placeholders but no AffectedResources) *)
Definition setup_panics : bool :=
  (is_some (h_qrh h) && is_some (h_rh h)) || (h_wild h && negb (is_some (h_ar h))).
Definition is_query : bool := is_some (h_qrh h).

Definition get_result (st : St) (q : Q) : option rvalue :=
  match qs_query qs st q with
  | Some ids => Some (transform_result (h_trans h) ids)
  | None => None
  end.

(* the query of an ordinary resource *)
Definition plain_query (rid : bytes) : option Q :=
  match h_rh h with Some f => f rid | None => Some (h_nilq h) end.

(* get request: getResource / getQueryResource *)
Inductive gresp := GErr | GPanic | GValue (t : rtype) (v : rvalue) (norm : bytes).
Definition get_resource (st : St) (rid cq : bytes) : gresp :=
  match h_qrh h with
  | Some f =>
    match f rid cq with
    | None => GErr
    | Some (q, norm) =>
      match get_result st q with
      | None => GErr
      | Some v => if is_nil norm then GPanic else GValue (h_type h) v norm
      end
    end
  | None =>
    match plain_query rid with
    | None => GErr
    | Some q => match get_result st q with None => GErr | Some v => GValue (h_type h) v [] end
    end
  end.

(* ---- on a query change ---- *)
Inductive pub := PReset (rid : bytes) | PQueryEvent (rid : bytes) | PEvent (rid : bytes) (e : revent).
Inductive hstatus := HOk | HError | HPanic.      (* HError: logged, the handler returns *)

Definition announced (c : C) : list bytes :=
  match h_ar h with Some f => f c | None => [h_pattern h] end.

(* the loop sending transformed events on a resource (AddEvent / RemoveEvent /
   ChangeEvent panic on the wrong resource type or a negative index) *)
Fixpoint send_events (rid : bytes) (evs : list revent) : list pub * hstatus :=
  match evs with
  | [] => ([], HOk)
  | e :: r =>
    match e with
    | EvAdd _ idx | EvRemove _ idx | EvBad _ idx =>
      match h_type h with
      | TModel => ([], HPanic)
      | TCollection =>
        if (idx <? 0)%Z then ([], HPanic)
        else let (ps, st) := send_events rid r in (PEvent rid e :: ps, st)
      end
    | EvChange ch =>
      match h_type h with
      | TCollection => ([], HPanic)
      | TModel => let (ps, st) := send_events rid r in
                  ((if is_nil ch then ps else PEvent rid e :: ps), st)
      end
    | EvOther => ([], HError)
    end
  end.

Definition resource_event (c : C) (rid : bytes) : list pub * hstatus :=
  if negb (h_resource h rid) then ([], HError) else
  match plain_query rid with
  | None => ([], HError)
  | Some q =>
    match qs_events qs c q with
    | None => ([], HError)
    | Some (evs, reset) =>
      if reset then ([PReset rid], HOk)
      else match evs with
           | [] => ([], HOk)
           | _ => if events_transformable (h_trans h) evs
                  then send_events rid (transform_events (h_trans h) evs)
                  else ([], HError)                      (* "error transforming events" *)
           end
    end
  end.

Fixpoint change_handler_rids (c : C) (rids : list bytes) : list pub * hstatus :=
  match rids with
  | [] => ([], HOk)
  | rid :: r =>
    let (ps, st) := resource_event c rid in
    match st with
    | HOk => let (ps', st') := change_handler_rids c r in (ps ++ ps', st')
    | _ => (ps, st)
    end
  end.

Fixpoint query_change_rids (rids : list bytes) : list pub * hstatus :=
  match rids with
  | [] => ([], HOk)
  | rid :: r =>
    if h_resource h rid
    then let (ps, st) := query_change_rids r in (PQueryEvent rid :: ps, st)
    else ([], HPanic)
  end.

(* what the handler's OnQueryChange callback publishes *)
Definition handle_change (c : C) : list pub * hstatus :=
  if is_query then query_change_rids (announced c) else change_handler_rids c (announced c).

(* the answer to a query request for client query cq sent on a query event of
   rid, the store being st_now at that moment *)
Inductive qresp := QRErr | QRValue (t : rtype) (v : rvalue) | QREvents (evs : list revent).

(* events of a query response; None = a panic (recovered: error response) *)
Fixpoint response_events (evs : list revent) : option (list revent) :=
  match evs with
  | [] => Some []
  | e :: r =>
    match e with
    | EvAdd _ idx | EvRemove _ idx | EvBad _ idx =>
      match h_type h with
      | TModel => None
      | TCollection => if (idx <? 0)%Z then None
                       else match response_events r with Some l => Some (e :: l) | None => None end
      end
    | EvChange ch =>
      match h_type h with
      | TCollection => None
      | TModel => match response_events r with
                  | Some l => Some (if is_nil ch then l else e :: l)
                  | None => None
                  end
      end
    | EvOther => None
    end
  end.

Definition query_request (st_now : St) (c : C) (rid cq : bytes) : qresp :=
  match h_qrh h with
  | None => QRErr
  | Some f =>
    match f rid cq with
    | None => QRErr
    | Some (q, _) =>
      match qs_events qs c q with
      | None => QRErr
      | Some (evs, reset) =>
        if reset then
          match get_result st_now q with Some v => QRValue (h_type h) v | None => QRErr end
        else match evs with
             | [] => QREvents []
             | _ => if events_transformable (h_trans h) evs then
                      match response_events (transform_events (h_trans h) evs) with
                      | Some l => QREvents l
                      | None => QRErr
                      end
                    else QRErr                            (* panic(err), recovered: error response *)
             end
      end
    end
  end.

(* ---- the gateway client ---- *)
Fixpoint insert_at {A} (n : nat) (x : A) (l : list A) : list A :=
  match n, l with
  | O, _ => x :: l
  | S n', y :: l' => y :: insert_at n' x l'
  | S _, [] => [x]
  end.
Fixpoint remove_at {A} (n : nat) (l : list A) : list A :=
  match n, l with
  | _, [] => []
  | O, _ :: l' => l'
  | S n', y :: l' => y :: remove_at n' l'
  end.
Fixpoint apply_changes (ch : list (bytes * option bytes)) (m : amap) : amap :=
  match ch with
  | [] => m
  | (k, ov) :: r =>
    (* entries later in the list are older: apply them first, head wins *)
    let m' := apply_changes r m in
    match ov with
    | Some v => (k, v) :: m'
    | None => filter (fun kv => negb (beq k (fst kv))) m'
    end
  end.

(* None = the event does not apply to the held value (protocol error) *)
Definition apply_event (v : rvalue) (e : revent) : option rvalue :=
  match v, e with
  | VColl l, EvAdd x idx =>
    if (0 <=? idx)%Z && (Z.to_nat idx <=? length l)%nat then Some (VColl (insert_at (Z.to_nat idx) x l)) else None
  | VColl l, EvRemove _ idx =>
    if (0 <=? idx)%Z && (Z.to_nat idx <? length l)%nat then Some (VColl (remove_at (Z.to_nat idx) l)) else None
  | VModel m, EvChange ch => Some (VModel (apply_changes ch m))
  | _, _ => None
  end.
Fixpoint apply_events (v : rvalue) (evs : list revent) : option rvalue :=
  match evs with
  | [] => Some v
  | e :: r => match apply_event v e with Some v' => apply_events v' r | None => None end
  end.

(* what the client holds: a value, or nothing usable (error / broken) *)
Definition view := option (rtype * rvalue).
Definition view_of_get (g : gresp) : view :=
  match g with GValue t v _ => Some (t, v) | _ => None end.
Definition view_apply (w : view) (evs : list revent) : view :=
  match w with
  | Some (t, v) => match apply_events v evs with Some v' => Some (t, v') | None => None end
  | None => None
  end.

(* the client of (rid, cq) processes what the handler published for change c;
   its re-fetch after a system.reset and its query requests are served when
   the store is st_now *)
Fixpoint client_pubs (st_now : St) (c : C) (rid cq : bytes) (ps : list pub) (w : view) : view :=
  match ps with
  | [] => w
  | p :: r =>
    let w' :=
      match p with
      | PReset x => if beq x rid then view_of_get (get_resource st_now rid cq) else w
      | PEvent x e => if beq x rid then view_apply w [e] else w
      | PQueryEvent x =>
        if beq x rid then
          match query_request st_now c rid cq with
          | QRValue t v => Some (t, v)
          | QREvents evs => view_apply w evs
          | QRErr => w
          end
        else w
      end in
    client_pubs st_now c rid cq r w'
  end.

Definition client_step (st_now : St) (c : C) (rid cq : bytes) (w : view) : view :=
  client_pubs st_now c rid cq (fst (handle_change c)) w.

End Handler.

(* ---- badgerstore's QueryStore: the store state a query sees is the index key
   space; Events never returns events, reset = affectsQuery ---- *)
Definition bs_store {V} : qstore kdb (change V) (iquery V) :=
  QS (fun d q => match fetch_collection d q with FOk l => Some l | _ => None end)
     (fun c q => Some ([], affects_query q (snd (fst c)) (snd c))).

(* QueryStore.updateIndex runs the OnQueryChange callbacks only when some index
   key changed *)
Definition bs_client_step {V} (idxs : list (index V)) (h : qhandler (change V) (iquery V))
           (d_now : kdb) (c : change V) (rid cq : bytes) (w : view) : view :=
  if key_changed idxs c then client_step bs_store h d_now c rid cq w else w.

(* ---- a client over a whole change sequence ---- *)
Definition memb (x : bytes) (l : list bytes) : bool := existsb (beq x) l.

(* the query a subscription (resource, client query) stands for; for a query
   resource the normalized query must be non-empty (getQueryResource panics otherwise) *)
Definition sub_query {C Q} (h : qhandler C Q) (rid cq : bytes) : option Q :=
  match h_qrh h with
  | Some f => match f rid cq with
              | Some (q, norm) => if is_nil norm then None else Some q
              | None => None
              end
  | None => plain_query h rid
  end.

(* dn is the index after some prefix of the changes still to come *)
Definition reachable_after {V} (idxs : list (index V)) (d : kdb) (cs : list (change V)) (dn : kdb) : Prop :=
  exists pre post, cs = pre ++ post /\ dn = index_after idxs d pre.

(* The client processes the conversation of every change in order.  The
   conversation of a change (re-fetch after system.reset, query requests) is
   served at ANY index state between that change and the end of the sequence:
   several further mutations may be indexed before the gateway is answered. *)
Inductive client_run {V} (idxs : list (index V)) (h : qhandler (change V) (iquery V)) (rid cq : bytes)
  : kdb -> list (change V) -> view -> view -> Prop :=
| CRnil : forall d w, client_run idxs h rid cq d [] w w
| CRcons : forall d c r dn w w',
    reachable_after idxs (index_after idxs d [c]) r dn ->
    client_run idxs h rid cq (index_after idxs d [c]) r (bs_client_step idxs h dn c rid cq w) w' ->
    client_run idxs h rid cq d (c :: r) w w'.

(* side conditions of C13's query_spec at a state *)
Definition data_ok {V} (q : iquery V) (s : vstore V) (d : kdb) : Prop :=
  entries_nul_free (entries_of (qidx q) s) = true /\
  (qrev q = true -> db_bytes_ok d = true) /\
  ((qlimit q < 0)%Z -> (Z.of_nat (length d) < max_int)%Z).

Definition fresh_get {V} (h : qhandler (change V) (iquery V)) (d : kdb) (rid cq : bytes) : view :=
  view_of_get (get_resource bs_store h d rid cq).

(* ---- QueryStores that answer with events (not badgerstore): what a correct
   Events means on id lists ---- *)
Definition raw_step (e : revent) (l : list bytes) : option (list bytes) :=
  match e with
  | EvAdd x i =>
    if (0 <=? i)%Z && (Z.to_nat i <=? length l)%nat then Some (insert_at (Z.to_nat i) x l) else None
  | EvRemove x i =>
    if (0 <=? i)%Z && (Z.to_nat i <? length l)%nat && beq (nth (Z.to_nat i) l []) x
    then Some (remove_at (Z.to_nat i) l) else None
  | _ => None
  end.
(* the events turn the old id list into the new one; remove events name the removed id *)
Fixpoint raw_apply (evs : list revent) (l : list bytes) : option (list bytes) :=
  match evs with
  | [] => Some l
  | e :: r => match raw_step e l with Some l' => raw_apply r l' | None => None end
  end.
(* every id list on the way is duplicate-free (IDToRIDModelTransformer: "the
   behavior is undefined for slices containing duplicate id string") *)
Fixpoint raw_nodup (evs : list revent) (l : list bytes) : Prop :=
  NoDup l /\
  match evs with
  | [] => True
  | e :: r => match raw_step e l with Some l' => raw_nodup r l' | None => True end
  end.

(* the resource type fits the transformer's output *)
Definition type_fits {C Q} (h : qhandler C Q) : Prop :=
  match h_trans h with TrModel _ => h_type h = TModel | _ => h_type h = TCollection end.

(* same content: collections equal, models equal as finite maps *)
Definition rv_equiv (a b : rvalue) : Prop :=
  match a, b with
  | VColl x, VColl y => x = y
  | VModel x, VModel y => forall k, alookup k x = alookup k y
  | _, _ => False
  end.
Definition view_equiv (a b : view) : Prop :=
  match a, b with
  | Some (t1, v1), Some (t2, v2) => t1 = t2 /\ rv_equiv v1 v2
  | None, None => True
  | _, _ => False
  end.
