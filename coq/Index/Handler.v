(* store/querystorehandler.go at the level of "which resources / queries are
   told what" when a query change arrives, and what a subscribed client holds
   afterwards.  No proofs here.

   - ordinary resources (RequestHandler): changeHandler walks the announced
     resource ids (AffectedResources, or the pattern itself), asks
     QueryChange.Events for the resource's query and publishes system.reset
     for the resource when the change reports reset; an error (unknown
     resource, RequestHandler error) is logged and ends the walk.
   - query resources (QueryRequestHandler): queryChangeHandler publishes a query
     event on every announced resource; each query request that then arrives
     for a client query is answered with the fresh result when the change
     reports reset and with "no events" otherwise.
   badgerstore's Events always returns (nil, affected): there are never events. *)
From GoRes Require Export Index.Spec.
Open Scope N_scope.

Section Handler.
Context {V : Type}.

Record hconfig := HC {
  h_isquery : bool;                                   (* QueryRequestHandler is set *)
  h_pattern : bytes;
  h_ar : option (change V -> list bytes);             (* AffectedResources(pattern, change) *)
  (* resource name and client query ([] for ordinary resources) to the index
     query: Service.Resource + (Query)RequestHandler + the store's query
     callback; None = any of them fails *)
  h_rh : bytes -> bytes -> option (iquery V)
}.

Inductive pub := PReset (rid : bytes) | PQueryEvent (rid : bytes).

Definition announced (h : hconfig) (c : change V) : list bytes :=
  match h_ar h with Some f => f c | None => [h_pattern h] end.

Fixpoint reset_rids (h : hconfig) (c : change V) (rids : list bytes) : list bytes :=
  match rids with
  | [] => []
  | rid :: r =>
    match h_rh h rid [] with
    | None => []                                      (* error logged, changeHandler returns *)
    | Some q => (if affects_query q (snd (fst c)) (snd c) then [rid] else []) ++ reset_rids h c r
    end
  end.

(* what the OnQueryChange callback of the handler publishes *)
Definition handler_pubs (h : hconfig) (c : change V) : list pub :=
  if h_isquery h then map PQueryEvent (announced h c)
  else map PReset (reset_rids h c (announced h c)).

Inductive qresp := QRResult (r : outcome) | QRNoEvents | QRError.

(* the answer to a query request for client query cq on resource rid, the
   index being d_now at that moment *)
Definition query_response (h : hconfig) (d_now : kdb) (c : change V) (rid cq : bytes) : qresp :=
  match h_rh h rid cq with
  | None => QRError
  | Some q => if affects_query q (snd (fst c)) (snd c)
              then QRResult (fetch_collection d_now q) else QRNoEvents
  end.

Definition mem (x : bytes) (l : list bytes) : bool := existsb (beq x) l.

(* what a client subscribed to (rid, cq) holds after the change was handled:
   - system.reset for rid: the gateway re-fetches the resource (a fresh get);
   - query event on rid: the gateway sends a query request for cq and applies
     the response (fresh result replaces the view, no events keeps it);
   - not told: the view stays.
   The handler runs only when some index key changed (QueryStore.updateIndex). *)
Definition client_after (idxs : list (index V)) (h : hconfig) (d_now : kdb) (c : change V)
                        (rid cq : bytes) (view : outcome) : outcome :=
  if negb (key_changed idxs c) then view else
  if h_isquery h then
    if mem rid (announced h c) then
      match query_response h d_now c rid cq with
      | QRResult r => r
      | QRNoEvents => view
      | QRError => view
      end
    else view
  else
    if mem rid (reset_rids h c (announced h c)) then
      match h_rh h rid [] with Some q => fetch_collection d_now q | None => view end
    else view.

End Handler.
Arguments hconfig : clear implicits.
