(* C14: callbacks_exact, affects_sound, affects_precise. *)
From GoRes Require Import Index.Spec Index.ProofsOrder Index.ProofsSort Index.ProofsQuery Index.ProofsInv.
From Coq Require Import Sorting.Sorted Arith.
Open Scope N_scope.

Section Change.
Context {V : Type}.

(* ---- callbacks ---- *)
Lemma index_after_one : forall (idxs : list (index V)) d id b a,
  index_after idxs d [(id, b, a)] = fst (update_idxs idxs id b a d false).
Proof.
  intros. unfold index_after. cbn [run_changes]. unfold update_index.
  destruct (update_idxs idxs id b a d false). reflexivity.
Qed.

Lemma callbacks_exact_pf : forall (idxs : list (index V)) ncb cs d,
  snd (run_changes idxs ncb d cs) = expected_effects idxs ncb d cs.
Proof.
  induction cs as [|[[id b] a] r IH]; intros d; [reflexivity|].
  cbn [run_changes expected_effects fst snd]. rewrite index_after_one.
  unfold update_index. pose proof (update_idxs_flag idxs id b a d false) as F.
  destruct (update_idxs idxs id b a d false) as [d' u] eqn:E. cbn [fst snd] in *.
  specialize (IH d'). destruct (run_changes idxs ncb d' r) as [d2 e2]. cbn [snd] in *.
  subst e2. unfold key_changed. rewrite F. cbn [orb]. reflexivity.
Qed.

Lemma index_after_run : forall (idxs : list (index V)) ncb d cs,
  fst (run_changes idxs ncb d cs) = index_after idxs d cs.
Proof.
  intros idxs ncb. unfold index_after. intros d cs. revert d.
  induction cs as [|[[id b] a] r IH]; intros d; [reflexivity|].
  cbn [run_changes]. unfold update_index.
  destruct (update_idxs idxs id b a d false) as [d' u]. specialize (IH d').
  destruct (run_changes idxs ncb d' r). destruct (run_changes idxs 0 d' r). exact IH.
Qed.

Lemma index_after_cons : forall (idxs : list (index V)) d c cs,
  index_after idxs d (c :: cs) = index_after idxs (index_after idxs d [c]) cs.
Proof.
  intros idxs d [[id b] a] cs. rewrite index_after_one. unfold index_after. cbn [run_changes].
  unfold update_index. destruct (update_idxs idxs id b a d false) as [d1 u1]. cbn [fst].
  destruct (run_changes idxs 0 d1 cs). reflexivity.
Qed.

Lemma cb_log_app : forall j (x y : list (effect V)), cb_log j (x ++ y) = cb_log j x ++ cb_log j y.
Proof. intros. unfold cb_log. apply flat_map_app. Qed.

Lemma cb_log_seq : forall j id (b a : option V) d n s,
  cb_log j (map (fun j' => ECallback j' id b a d) (seq s n)) =
  if (s <=? j)%nat && (j <? s + n)%nat then [(id, b, a)] else [].
Proof.
  induction n as [|n IH]; intros s.
  - cbn [seq map]. unfold cb_log. cbn [flat_map].
    destruct (Nat.leb_spec s j); destruct (Nat.ltb_spec j (s + 0)); try reflexivity; lia.
  - cbn [seq map]. unfold cb_log in *. cbn [flat_map]. rewrite IH.
    destruct (Nat.eqb_spec s j) as [E|E].
    + subst. destruct (Nat.leb_spec (S j) j); [lia|]. cbn [andb app].
      destruct (Nat.leb_spec j j); [|lia]. destruct (Nat.ltb_spec j (j + S n)); [reflexivity|lia].
    + cbn [app]. destruct (Nat.leb_spec (S s) j); destruct (Nat.leb_spec s j);
        destruct (Nat.ltb_spec j (S s + n)); destruct (Nat.ltb_spec j (s + S n)); try reflexivity; lia.
Qed.

Lemma callbacks_once_pf : forall (idxs : list (index V)) ncb cs d j,
  cb_log j (snd (run_changes idxs ncb d cs)) =
  if (j <? ncb)%nat then filter (key_changed idxs) cs else [].
Proof.
  intros idxs ncb cs d j. rewrite callbacks_exact_pf. revert d.
  induction cs as [|[[id b] a] r IH]; intros d.
  - destruct (j <? ncb)%nat; reflexivity.
  - cbn [expected_effects filter fst snd].
    change (cb_log j (EIndexTxn id (index_after idxs d [(id, b, a)]) :: ?x)) with (cb_log j x).
    rewrite cb_log_app, IH. destruct (key_changed idxs (id, b, a)).
    + rewrite cb_log_seq. replace (0 <=? j)%nat with true by (symmetry; apply Nat.leb_le; lia).
      cbn [andb plus]. destruct (j <? ncb)%nat; reflexivity.
    + destruct (j <? ncb)%nat; reflexivity.
Qed.

Lemma fold_left_app_change : forall (pre : list (change V)) c s,
  fold_left apply_change (pre ++ [c]) s = apply_change (fold_left apply_change pre s) c.
Proof. intros. rewrite fold_left_app. reflexivity. Qed.

(* a callback runs after the index holds the mutation it reports *)
Lemma callback_after_index_pf : forall (idxs : list (index V)) ncb,
  names_ok idxs ->
  forall cs s d j id b a dcall,
  index_state idxs s d -> chain_ok s cs ->
  In (ECallback j id b a dcall) (snd (run_changes idxs ncb d cs)) ->
  exists pre post, cs = pre ++ (id, b, a) :: post /\
    dcall = index_after idxs d (pre ++ [(id, b, a)]) /\
    index_state idxs (fold_left apply_change (pre ++ [(id, b, a)]) s) dcall.
Proof.
  intros idxs ncb [CF ND] cs. induction cs as [|[[id0 b0] a0] r IH]; intros s d j id b a dcall St C Hin.
  - destruct Hin.
  - rewrite callbacks_exact_pf in Hin. cbn [expected_effects fst snd] in Hin.
    cbn [chain_ok fst snd] in C. destruct C as [Hb [Nid C]].
    assert (St' : index_state idxs (apply_change s (id0, b0, a0)) (index_after idxs d [(id0, b0, a0)])).
    { rewrite index_after_one. subst b0. apply state_step_pf; assumption. }
    destruct Hin as [Hin|Hin]; [discriminate|]. apply in_app_or in Hin as [Hin|Hin].
    + destruct (key_changed idxs (id0, b0, a0)); [|destruct Hin].
      apply in_map_iff in Hin as [j' [E _]]. inversion E; subst.
      exists [], r. split; [reflexivity|]. split; [reflexivity|]. exact St'.
    + rewrite <- callbacks_exact_pf in Hin.
      destruct (IH _ _ j id b a dcall St' C Hin) as [pre [post [E1 [E2 E3]]]].
      exists ((id0, b0, a0) :: pre), post. split; [cbn [app]; f_equal; exact E1|]. split.
      * rewrite E2. cbn [app]. symmetry. apply index_after_cons.
      * exact E3.
Qed.

(* ---- affects_query ---- *)
Lemma affects_false : forall (q : iquery V) b a,
  affects_query q b a = false ->
  opt_key (qidx q) b = opt_key (qidx q) a \/
  (okey_matches (qprefix q) (qfilter q) (opt_key (qidx q) b) = false /\
   okey_matches (qprefix q) (qfilter q) (opt_key (qidx q) a) = false).
Proof.
  intros q b a H. unfold affects_query in H.
  destruct (okey_eq (opt_key (qidx q) b) (opt_key (qidx q) a)) eqn:E.
  - left. apply okey_eq_true. exact E.
  - right. apply orb_false_iff in H as [H1 H2]. split.
    + destruct (opt_key (qidx q) b) as [k|] eqn:Ek; [|reflexivity].
      cbn [is_some key_or_nil andb] in H1.
      cbn. unfold key_matches, filter_ok. destruct (qfilter q) as [f|].
      * destruct (has_prefix (qprefix q) k); [exact H1|reflexivity].
      * rewrite H1. reflexivity.
    + destruct (opt_key (qidx q) a) as [k|] eqn:Ek; [|reflexivity].
      cbn [is_some key_or_nil andb] in H2.
      cbn. unfold key_matches, filter_ok. destruct (qfilter q) as [f|].
      * destruct (has_prefix (qprefix q) k); [exact H2|reflexivity].
      * rewrite H2. reflexivity.
Qed.

Lemma entry_lookup : forall (ix : index V) key i (s : vstore V),
  NoDup (map fst s) ->
  (In (key, i) (entries_of ix s) <-> opt_key ix (st_get i s) = Some key).
Proof.
  intros ix key i s ND. rewrite entries_of_In. split.
  - intros [v [Hv Hk]]. apply st_get_In in Hv; [|exact ND]. rewrite Hv. exact Hk.
  - intros H. destruct (st_get i s) as [v|] eqn:G; [|discriminate]. exists v. split; [|exact H].
    apply st_get_In; assumption.
Qed.

Lemma sort_ext : forall l1 l2 : list entry,
  NoDup l1 -> NoDup l2 -> (forall x, In x l1 <-> In x l2) -> sort_by_key_id l1 = sort_by_key_id l2.
Proof.
  intros l1 l2 N1 N2 H. apply sorted_is_sort; [exact N2|apply sort_SS; exact N1|].
  intros x. rewrite sort_In. apply H.
Qed.

Lemma affects_unchanged_pf : forall (idxs : list (index V)) (q : iquery V) s d id a,
  names_ok idxs -> In (qidx q) idxs -> index_state idxs s d -> nul_free id = true ->
  let b := st_get id s in
  let s' := st_put id a s in
  let d' := fst (update_idxs idxs id b a d false) in
  entries_nul_free (entries_of (qidx q) s) = true ->
  entries_nul_free (entries_of (qidx q) s') = true ->
  (qrev q = true -> db_bytes_ok d = true /\ db_bytes_ok d' = true) ->
  ((qlimit q < 0)%Z -> (Z.of_nat (length d) < max_int)%Z /\ (Z.of_nat (length d') < max_int)%Z) ->
  affects_query q b a = false -> fetch_collection d q = fetch_collection d' q.
Proof.
  intros idxs q s d id a [CF NDn] Hin St Nid b s' d' NF NF' Hbytes Hlen Aff.
  assert (St' : index_state idxs s' d') by (apply state_step_pf; assumption).
  destruct (state_slice_pf idxs CF NDn s d (qidx q) St Hin) as [Sl [NDe _]].
  destruct (state_slice_pf idxs CF NDn s' d' (qidx q) St' Hin) as [Sl' [NDe' _]].
  destruct St as [NDs [_ [Sd _]]]. destruct St' as [NDs' [_ [Sd' _]]].
  rewrite (query_spec_pf d q _ Sd Sl NDe NF (fun H => proj1 (Hbytes H)) (fun H => proj1 (Hlen H))).
  rewrite (query_spec_pf d' q _ Sd' Sl' NDe' NF' (fun H => proj2 (Hbytes H)) (fun H => proj2 (Hlen H))).
  f_equal. unfold spec_query, spec_query_on. do 3 f_equal.
  apply sort_ext; [apply NoDup_filter; exact NDe|apply NoDup_filter; exact NDe'|].
  intros [key i]. rewrite !filter_In. cbn [fst].
  rewrite (entry_lookup (qidx q) key i s NDs), (entry_lookup (qidx q) key i s' NDs').
  unfold s'. rewrite st_get_put. destruct (beq i id) eqn:Ei.
  - apply beq_eq in Ei. subst i. fold b. destruct (affects_false q b a Aff) as [E|[M1 M2]].
    + rewrite E. tauto.
    + split; intros [H1 H2]; exfalso.
      * rewrite H1 in M1. cbn in M1. congruence.
      * rewrite H1 in M2. cbn in M2. congruence.
  - tauto.
Qed.

Lemma affects_sound_pf : forall (idxs : list (index V)) (q : iquery V) s d id a,
  names_ok idxs -> In (qidx q) idxs -> index_state idxs s d -> nul_free id = true ->
  let b := st_get id s in
  let s' := st_put id a s in
  let d' := fst (update_idxs idxs id b a d false) in
  entries_nul_free (entries_of (qidx q) s) = true ->
  entries_nul_free (entries_of (qidx q) s') = true ->
  (qrev q = true -> db_bytes_ok d = true /\ db_bytes_ok d' = true) ->
  ((qlimit q < 0)%Z -> (Z.of_nat (length d) < max_int)%Z /\ (Z.of_nat (length d') < max_int)%Z) ->
  fetch_collection d q <> fetch_collection d' q -> affects_query q b a = true.
Proof.
  intros idxs q s d id a Hn Hin St Nid b s' d' NF NF' Hbytes Hlen Hdiff.
  destruct (affects_query q b a) eqn:Aff; [reflexivity|]. exfalso. apply Hdiff.
  apply (affects_unchanged_pf idxs q s d id a); assumption.
Qed.

Lemma unchanged_keys_same_db : forall (r : list (index V)) id b a d u,
  existsb (fun ix => negb (okey_eq (opt_key ix b) (opt_key ix a))) r = false ->
  update_idxs r id b a d u = (d, u).
Proof.
  induction r as [|ix r IH]; intros id b a d u H; [reflexivity|].
  cbn [existsb] in H. apply orb_false_iff in H as [H1 H2]. cbn [update_idxs].
  destruct (okey_eq (opt_key ix b) (opt_key ix a)); [apply IH; exact H2|discriminate].
Qed.

Lemma affects_precise_pf : forall (q : iquery V) b a,
  okey_matches (qprefix q) (qfilter q) (opt_key (qidx q) b) = false ->
  okey_matches (qprefix q) (qfilter q) (opt_key (qidx q) a) = false ->
  affects_query q b a = false.
Proof.
  intros q b a M1 M2. unfold affects_query.
  destruct (okey_eq (opt_key (qidx q) b) (opt_key (qidx q) a)); [reflexivity|].
  assert (Side : forall ok, okey_matches (qprefix q) (qfilter q) ok = false ->
            match qfilter q with
            | Some f => if is_some ok && has_prefix (qprefix q) (key_or_nil ok)
                        then f (key_or_nil ok)
                        else is_some ok && has_prefix (qprefix q) (key_or_nil ok)
            | None => is_some ok && has_prefix (qprefix q) (key_or_nil ok)
            end = false).
  { intros [k|] M; cbn [is_some key_or_nil andb].
    - cbn in M. unfold key_matches, filter_ok in M. destruct (qfilter q) as [f|].
      + destruct (has_prefix (qprefix q) k); [exact M|reflexivity].
      + rewrite andb_true_r in M. exact M.
    - destruct (qfilter q); reflexivity. }
  rewrite (Side _ M1), (Side _ M2). reflexivity.
Qed.

End Change.

(* before the fix: value present but unindexed, empty prefix, a filter that
   accepts the empty key and rejects the other key *)
Lemma affects_precise_nilkey_refuted_pf :
  exists (q : iquery (option bytes)) b a,
    okey_matches (qprefix q) (qfilter q) (opt_key (qidx q) b) = false /\
    okey_matches (qprefix q) (qfilter q) (opt_key (qidx q) a) = false /\
    affects_query_v0 q b a = true /\ affects_query q b a = false.
Proof.
  exists (IQ (Index [98] (fun v => v)) [] (Some (fun k => Nat.even (length k))) 0%Z (-1)%Z false),
         (Some None), (Some (Some [107])).
  vm_compute. repeat split.
Qed.
