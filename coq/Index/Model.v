(* Executable model of store/badgerstore/index.go (getKey, getQuery,
   prefixSuccessor, IndexQuery.FetchCollection) and of the index maintenance of
   store/badgerstore/querystore.go (updateIndex, queryChange.affectsQuery), as the
   code is in /repo now (Reverse seeks to the prefix successor and skips it).

   BadgerDB is modelled by its key space: a bytewise strictly sorted list of
   byte strings.  An iterator is the list of keys it will still visit, current
   item first: forward Seek(k) = the keys >= k in ascending order, reverse
   Seek(k) = the keys <= k in descending order, Next = tail,
   ValidForPrefix p = the current key exists and has prefix p.
   No proofs in this file. *)
From GoRes Require Export Base.Bytes.
From Coq Require Export ZArith.
Open Scope N_scope.

Definition colon : N := 58.
Definition nul : N := 0.
Definition xff : N := 255.
(* Go's maxInt on a 64 bit platform *)
Definition max_int : Z := 9223372036854775807%Z.

(* ---- bytewise order (bytes.Compare) and bytes.HasPrefix ---- *)
Fixpoint blt (a b : bytes) : bool :=
  match a, b with
  | _, [] => false
  | [], _ :: _ => true
  | x :: a', y :: b' => if x <? y then true else if x =? y then blt a' b' else false
  end.
Fixpoint has_prefix (p k : bytes) : bool :=
  match p, k with
  | [], _ => true
  | x :: p', y :: k' => (x =? y) && has_prefix p' k'
  | _ :: _, [] => false
  end.

(* ---- key layout ---- *)
Definition get_key (name key id : bytes) : bytes := name ++ colon :: key ++ nul :: id.
Definition get_query (name prefix : bytes) : bytes := name ++ colon :: prefix.

(* ---- the database key space ---- *)
Definition kdb := list bytes.
Fixpoint db_set (k : bytes) (d : kdb) : kdb :=
  match d with
  | [] => [k]
  | x :: d' => if blt k x then k :: d else if beq k x then d else x :: db_set k d'
  end.
Fixpoint db_del (k : bytes) (d : kdb) : kdb :=
  match d with
  | [] => []
  | x :: d' => if beq k x then db_del k d' else x :: db_del k d'
  end.
(* forward Seek: drop the keys < k *)
Fixpoint drop_lt (k : bytes) (l : kdb) : kdb :=
  match l with
  | [] => []
  | x :: l' => if blt x k then drop_lt k l' else l
  end.
(* reverse Seek on the descending list: drop the keys > k *)
Fixpoint drop_gt (k : bytes) (l : kdb) : kdb :=
  match l with
  | [] => []
  | x :: l' => if blt k x then drop_gt k l' else l
  end.

(* prefixSuccessor: strip the trailing 0xFF bytes, increment the last remaining
   byte.  None = the Go code indexes s[-1] (panic): prefix empty or all 0xFF. *)
Fixpoint psucc (p : bytes) : option bytes :=
  match p with
  | [] => None
  | c :: p' =>
    match psucc p' with
    | Some s => Some (c :: s)
    | None => if c =? xff then None else Some [c + 1]
    end
  end.

(* bytes.LastIndexByte(k, 0) *)
Fixpoint last_nul (k : bytes) : option nat :=
  match k with
  | [] => None
  | c :: k' =>
    match last_nul k' with
    | Some i => Some (S i)
    | None => if c =? nul then Some O else None
    end
  end.

Inductive outcome := FOk (ids : list bytes) | FErr | FPanic.
Definition ocons (x : bytes) (o : outcome) : outcome :=
  match o with FOk l => FOk (x :: l) | e => e end.

Definition filter_ok (filt : option (bytes -> bool)) (k : bytes) : bool :=
  match filt with Some f => f k | None => true end.

(* the iterator positioned by FetchCollection before its loop *)
Definition it_start (reverse : bool) (qp : bytes) (d : kdb) : option kdb :=
  if reverse then
    match psucc qp with
    | None => None
    | Some s =>
      let l := drop_gt s (rev d) in
      Some (match l with
            | k :: l' => if beq k s then l' else l   (* skip the seek key itself *)
            | [] => []
            end)
    end
  else Some (drop_lt qp d).

(* the loop `for ; it.ValidForPrefix(queryPrefix); it.Next()`; limit > 0 here *)
Fixpoint scan (qp : bytes) (namelen : nat) (filt : option (bytes -> bool))
              (l : kdb) (offset limit : Z) : outcome :=
  match l with
  | [] => FOk []
  | k :: l' =>
    if negb (has_prefix qp k) then FOk [] else
    match last_nul k with
    | None => FErr                                        (* "index entry is invalid" *)
    | Some idx =>
      if (idx <? length qp)%nat then scan qp namelen filt l' offset limit      (* qplen > idx *)
      else if negb (filter_ok filt (firstn (idx - namelen) (skipn namelen k)))
        then scan qp namelen filt l' offset limit
      else if (0 <? offset)%Z then scan qp namelen filt l' (offset - 1)%Z limit
      else if (limit - 1 =? 0)%Z then FOk [skipn (S idx) k]
      else ocons (skipn (S idx) k) (scan qp namelen filt l' offset (limit - 1)%Z)
    end
  end.

Section WithValues.
Context {V : Type}.

Record index := Index { iname : bytes; ikey : V -> option bytes }.

Record iquery := IQ {
  qidx : index;
  qprefix : bytes;
  qfilter : option (bytes -> bool);
  qoffset : Z;
  qlimit : Z;
  qrev : bool
}.

Definition fetch_collection (d : kdb) (q : iquery) : outcome :=
  if (qlimit q =? 0)%Z then FOk [] else
  let limit := if (qlimit q <? 0)%Z then max_int else qlimit q in
  let qp := get_query (iname (qidx q)) (qprefix q) in
  match it_start (qrev q) qp d with
  | None => FPanic
  | Some l => scan qp (S (length (iname (qidx q)))) (qfilter q) l (qoffset q) limit
  end.

(* ---- updateIndex ---- *)
Definition opt_key (ix : index) (ov : option V) : option bytes :=
  match ov with Some v => ikey ix v | None => None end.
(* (beforeKey != nil && afterKey != nil && Equal) || (beforeKey == nil && afterKey == nil) *)
Definition okey_eq (a b : option bytes) : bool :=
  match a, b with
  | Some x, Some y => beq x y
  | None, None => true
  | _, _ => false
  end.

Fixpoint update_idxs (idxs : list index) (id : bytes) (before after : option V)
                     (d : kdb) (updated : bool) : kdb * bool :=
  match idxs with
  | [] => (d, updated)
  | ix :: r =>
    let bk := opt_key ix before in
    let ak := opt_key ix after in
    if okey_eq bk ak then update_idxs r id before after d updated
    else
      let d1 := match bk with Some k => db_del (get_key (iname ix) k id) d | None => d end in
      let d2 := match ak with Some k => db_set (get_key (iname ix) k id) d1 | None => d1 end in
      update_idxs r id before after d2 true
  end.

Definition change := (bytes * option V * option V)%type.   (* id, before, after *)

(* what one index task does, in order: the badger transaction, then (if some
   index key changed) every registered query-change callback; a callback sees
   the database as it is after the transaction *)
Inductive effect :=
| EIndexTxn (id : bytes) (d_after : kdb)
| ECallback (cb : nat) (id : bytes) (before after : option V) (d_at_call : kdb).

Definition update_index (idxs : list index) (ncb : nat) (d : kdb) (c : change) : kdb * list effect :=
  let '(id, before, after) := c in
  let (d', updated) := update_idxs idxs id before after d false in
  (d', EIndexTxn id d' ::
       (if updated then map (fun j => ECallback j id before after d') (seq 0 ncb) else [])).

Fixpoint run_changes (idxs : list index) (ncb : nat) (d : kdb) (cs : list change) : kdb * list effect :=
  match cs with
  | [] => (d, [])
  | c :: r =>
    let (d1, e1) := update_index idxs ncb d c in
    let (d2, e2) := run_changes idxs ncb d1 r in
    (d2, e1 ++ e2)
  end.

(* ---- queryChange.affectsQuery ---- *)
Definition key_or_nil (o : option bytes) : bytes := match o with Some k => k | None => [] end.
Definition is_some {A} (o : option A) : bool := match o with Some _ => true | None => false end.
Definition affects_query (q : iquery) (before after : option V) : bool :=
  let bk := opt_key (qidx q) before in
  let ak := opt_key (qidx q) after in
  if okey_eq bk ak then false else
  (* wasMatch := beforeKey != nil && bytes.HasPrefix(beforeKey, iq.KeyPrefix) *)
  let was := is_some bk && has_prefix (qprefix q) (key_or_nil bk) in
  let isn := is_some ak && has_prefix (qprefix q) (key_or_nil ak) in
  let was' := match qfilter q with Some f => if was then f (key_or_nil bk) else was | None => was end in
  let isn' := match qfilter q with Some f => if isn then f (key_or_nil ak) else isn | None => isn end in
  was' || isn'.

(* affectsQuery before the fix: tested the VALUE for nil (`qc.before != nil`),
   so a present value with a nil key matched an empty KeyPrefix *)
Definition affects_query_v0 (q : iquery) (before after : option V) : bool :=
  let bk := opt_key (qidx q) before in
  let ak := opt_key (qidx q) after in
  if okey_eq bk ak then false else
  let was := is_some before && has_prefix (qprefix q) (key_or_nil bk) in
  let isn := is_some after && has_prefix (qprefix q) (key_or_nil ak) in
  let was' := match qfilter q with Some f => if was then f (key_or_nil bk) else was | None => was end in
  let isn' := match qfilter q with Some f => if isn then f (key_or_nil ak) else isn | None => isn end in
  was' || isn'.

(* ---- the value store as far as the index sees it (Store.OnChange) ---- *)
Definition vstore := list (bytes * V).
Fixpoint st_get (id : bytes) (s : vstore) : option V :=
  match s with
  | [] => None
  | (i, v) :: s' => if beq id i then Some v else st_get id s'
  end.
Fixpoint st_del (id : bytes) (s : vstore) : vstore :=
  match s with
  | [] => []
  | (i, v) :: s' => if beq id i then st_del id s' else (i, v) :: st_del id s'
  end.
Definition st_put (id : bytes) (ov : option V) (s : vstore) : vstore :=
  match ov with Some v => (id, v) :: st_del id s | None => st_del id s end.

Inductive mutation := MCreate (id : bytes) (v : V) | MUpdate (id : bytes) (v : V) | MDelete (id : bytes).

(* a successful mutation yields one OnChange(id, before, after); a failing one
   (create of an existing or empty id, update/delete of a missing id) none *)
Definition mut_change (s : vstore) (m : mutation) : option change :=
  match m with
  | MCreate id v => match st_get id s with
                    | Some _ => None
                    | None => if is_nil id then None else Some (id, None, Some v)
                    end
  | MUpdate id v => match st_get id s with Some b => Some (id, Some b, Some v) | None => None end
  | MDelete id => match st_get id s with Some b => Some (id, Some b, None) | None => None end
  end.
Definition apply_change (s : vstore) (c : change) : vstore :=
  let '(id, _, after) := c in st_put id after s.

Fixpoint changes_of (s : vstore) (ms : list mutation) : list change :=
  match ms with
  | [] => []
  | m :: r => match mut_change s m with
              | Some c => c :: changes_of (apply_change s c) r
              | None => changes_of s r
              end
  end.
Definition final_store (s : vstore) (ms : list mutation) : vstore :=
  fold_left apply_change (changes_of s ms) s.

(* the whole history, flushed: value store, index key space, effects *)
Definition run_history (idxs : list index) (ncb : nat) (ms : list mutation) : vstore * kdb * list effect :=
  let cs := changes_of [] ms in
  let (d, es) := run_changes idxs ncb [] cs in
  (final_store [] ms, d, es).

(* the (key, id) pairs a store holds for an index *)
Fixpoint entries_of (ix : index) (s : vstore) : list (bytes * bytes) :=
  match s with
  | [] => []
  | (id, v) :: s' => match ikey ix v with
                     | Some k => (k, id) :: entries_of ix s'
                     | None => entries_of ix s'
                     end
  end.

End WithValues.
Arguments index : clear implicits.
Arguments iquery : clear implicits.
Arguments change : clear implicits.
Arguments effect : clear implicits.
Arguments vstore : clear implicits.
Arguments mutation : clear implicits.
