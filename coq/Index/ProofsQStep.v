(* One conversation with ANY QueryStore (events or reset) and any of the
   QueryTransformers: served before the next change, it leaves the client with
   the content of a fresh get. *)
From GoRes Require Import Index.QHandler Index.ProofsOrder Index.ProofsQEvents.
Open Scope N_scope.

Lemma beq_sym' : forall a b, beq a b = beq b a.
Proof.
  intros a b. destruct (beq a b) eqn:E.
  - apply beq_eq in E. subst. symmetry. apply beq_refl.
  - destruct (beq b a) eqn:E'; [|reflexivity]. apply beq_eq in E'. subst. rewrite beq_refl in E. discriminate.
Qed.

Section Step.
Context {St C Q : Type}.
Variable qs : qstore St C Q.
Variable h : qhandler C Q.
Variable rid cq : bytes.
Variable q : Q.
Hypothesis Hq : sub_query h rid cq = Some q.

Lemma rv_equiv_refl : forall v, rv_equiv v v.
Proof. intros [l|m]; cbn; [reflexivity|intros k; reflexivity]. Qed.
Lemma view_equiv_refl : forall w, view_equiv w w.
Proof. intros [[t v]|]; cbn; [split; [reflexivity|apply rv_equiv_refl]|exact I]. Qed.

Lemma fresh_gen : forall st l, qs_query qs st q = Some l ->
  view_of_get (get_resource qs h st rid cq) = Some (h_type h, transform_result (h_trans h) l).
Proof.
  intros st l F. unfold get_resource, sub_query in *. destruct (h_qrh h) as [f|].
  - destruct (f rid cq) as [[q0 norm]|]; [|discriminate]. destruct (is_nil norm) eqn:En; [discriminate|].
    inversion Hq; subst q0. unfold get_result. rewrite F. reflexivity.
  - rewrite Hq. unfold get_result. rewrite F. reflexivity.
Qed.

(* what is delivered of an event list, and that the client ends up right *)
Lemma delivered : forall evs l l',
  type_fits h -> evs <> [] ->
  raw_apply evs l = Some l' ->
  (forall f, h_trans h = TrModel f -> raw_nodup evs l) ->
  exists sent, response_events h (transform_events (h_trans h) evs) = Some sent /\
    view_equiv (view_apply (Some (h_type h, transform_result (h_trans h) l)) sent)
               (Some (h_type h, transform_result (h_trans h) l')).
Proof.
  intros evs l l' Ty Ne Ra Nd. pose proof (raw_apply_addrem evs l l' Ra) as AR.
  unfold type_fits in Ty. destruct (h_trans h) as [|f|f] eqn:Et; cbn [transform_events transform_result].
  - exists evs. split; [apply response_coll; assumption|].
    cbn [view_apply]. rewrite (apply_coll_id evs l l' Ra). cbn. split; reflexivity.
  - exists (map_adds f evs). split.
    + apply response_coll; [assumption|]. rewrite map_adds_addrem. exact AR.
    + cbn [view_apply]. rewrite (apply_coll_map f evs l l' Ra). cbn. split; reflexivity.
  - destruct evs as [|e r]; [contradiction Ne; reflexivity|].
    set (ch := model_changes f (e :: r)).
    exists (if is_nil ch then [] else [EvChange ch]). split.
    + cbn [response_events]. rewrite Ty. reflexivity.
    + pose proof (model_after f (e :: r) l l' (Nd f eq_refl) Ra) as MA. fold ch in MA.
      destruct ch as [|x ch'] eqn:Ech; cbn [is_nil view_apply apply_events apply_event].
      * cbn. split; [reflexivity|]. intros k. specialize (MA k). cbn [apply_changes] in MA. exact MA.
      * cbn. split; [reflexivity|]. exact MA.
Qed.

Lemma send_resp : forall x evs sent,
  response_events h evs = Some sent -> send_events h x evs = (map (PEvent x) sent, HOk).
Proof.
  intros x. induction evs as [|e r IH]; intros sent H.
  - cbn in H. inversion H. reflexivity.
  - cbn [response_events] in H. cbn [send_events]. destruct e.
    + destruct (h_type h); [discriminate|]. destruct (idx <? 0)%Z; [discriminate|].
      destruct (response_events h r) as [l|]; [|discriminate]. inversion H; subst.
      rewrite (IH l eq_refl). reflexivity.
    + destruct (h_type h); [discriminate|]. destruct (idx <? 0)%Z; [discriminate|].
      destruct (response_events h r) as [l|]; [|discriminate]. inversion H; subst.
      rewrite (IH l eq_refl). reflexivity.
    + destruct (h_type h); [|discriminate].
      destruct (response_events h r) as [l|]; [|discriminate]. inversion H; subst.
      rewrite (IH l eq_refl). destruct (is_nil ch); reflexivity.
    + discriminate.
    + destruct (h_type h); [discriminate|]. destruct (idx <? 0)%Z; [discriminate|].
      destruct (response_events h r) as [l|]; [|discriminate]. inversion H; subst.
      rewrite (IH l eq_refl). reflexivity.
Qed.

Lemma view_apply_cons : forall w e r, view_apply (view_apply w [e]) r = view_apply w (e :: r).
Proof.
  intros [[t v]|] e r; [|reflexivity]. cbn [view_apply apply_events].
  destruct (apply_event v e) as [v'|]; reflexivity.
Qed.
Lemma view_apply_nil' : forall w : view, view_apply w [] = w.
Proof. intros [[t v]|]; reflexivity. Qed.

Lemma client_events : forall st c sent w,
  client_pubs qs h st c rid cq (map (PEvent rid) sent) w = view_apply w sent.
Proof.
  intros st c. induction sent as [|e r IH]; intros w.
  - cbn. symmetry. apply view_apply_nil'.
  - cbn [map client_pubs]. rewrite beq_refl, IH. apply view_apply_cons.
Qed.

Lemma client_pubs_app' : forall st c ps1 ps2 w,
  client_pubs qs h st c rid cq (ps1 ++ ps2) w =
  client_pubs qs h st c rid cq ps2 (client_pubs qs h st c rid cq ps1 w).
Proof. induction ps1 as [|p ps1 IH]; intros; [reflexivity|]. cbn [app client_pubs]. apply IH. Qed.

(* publications about another resource are ignored *)
Definition pub_rid (p : pub) : bytes :=
  match p with PReset x => x | PQueryEvent x => x | PEvent x _ => x end.

Lemma client_other : forall st c ps w,
  (forall p, In p ps -> beq (pub_rid p) rid = false) ->
  client_pubs qs h st c rid cq ps w = w.
Proof.
  intros st c. induction ps as [|p r IH]; intros w H; [reflexivity|].
  cbn [client_pubs]. pose proof (H p (or_introl eq_refl)) as Hp.
  destruct p; cbn [pub_rid] in Hp; rewrite Hp; apply IH; intros p' Hp'; apply H; right; exact Hp'.
Qed.

Lemma send_events_rid : forall x evs p, In p (fst (send_events h x evs)) -> pub_rid p = x.
Proof.
  intros x. induction evs as [|e r IH]; intros p Hp; [destruct Hp|].
  cbn [send_events] in Hp. destruct e.
  - destruct (h_type h); [destruct Hp|]. destruct (idx <? 0)%Z; [destruct Hp|].
    destruct (send_events h x r) as [ps st]. cbn [fst] in *. destruct Hp as [Hp|Hp]; [subst; reflexivity|apply IH; exact Hp].
  - destruct (h_type h); [destruct Hp|]. destruct (idx <? 0)%Z; [destruct Hp|].
    destruct (send_events h x r) as [ps st]. cbn [fst] in *. destruct Hp as [Hp|Hp]; [subst; reflexivity|apply IH; exact Hp].
  - destruct (h_type h); [|destruct Hp].
    destruct (send_events h x r) as [ps st]. cbn [fst] in *.
    destruct (is_nil ch); [apply IH; exact Hp|]. destruct Hp as [Hp|Hp]; [subst; reflexivity|apply IH; exact Hp].
  - destruct Hp.
  - destruct (h_type h); [destruct Hp|]. destruct (idx <? 0)%Z; [destruct Hp|].
    destruct (send_events h x r) as [ps st]. cbn [fst] in *. destruct Hp as [Hp|Hp]; [subst; reflexivity|apply IH; exact Hp].
Qed.

Lemma resource_event_rid : forall c x p, In p (fst (resource_event qs h c x)) -> pub_rid p = x.
Proof.
  intros c x p Hp. unfold resource_event in Hp.
  destruct (negb (h_resource h x)); [destruct Hp|].
  destruct (plain_query h x) as [qx|]; [|destruct Hp].
  destruct (qs_events qs c qx) as [[evs reset]|]; [|destruct Hp].
  destruct reset; [destruct Hp as [Hp|[]]; subst; reflexivity|].
  destruct evs as [|e r]; [destruct Hp|].
  destruct (events_transformable (h_trans h) (e :: r)); [|destruct Hp]. eapply send_events_rid; exact Hp.
Qed.

(* ---- ordinary resources ---- *)
Lemma plain_run : forall st c rids w,
  NoDup rids -> snd (change_handler_rids qs h c rids) = HOk ->
  client_pubs qs h st c rid cq (fst (change_handler_rids qs h c rids)) w =
  (if memb rid rids then client_pubs qs h st c rid cq (fst (resource_event qs h c rid)) w else w) /\
  (memb rid rids = true -> snd (resource_event qs h c rid) = HOk).
Proof.
  intros st c. induction rids as [|x r IH]; intros w ND Ok.
  - cbn. split; [reflexivity|discriminate].
  - inversion ND as [|? ? Nx ND']; subst. cbn [change_handler_rids] in *.
    destruct (resource_event qs h c x) as [ps stx] eqn:Ex.
    destruct stx; try (cbn in Ok; discriminate).
    destruct (change_handler_rids qs h c r) as [ps' st'] eqn:Er. cbn [fst snd] in *.
    rewrite client_pubs_app'. rewrite memb_cons. rewrite (beq_sym' rid x).
    destruct (beq x rid) eqn:E.
    + apply beq_eq in E. subst x. cbn [orb]. rewrite Ex. cbn [fst snd]. split; [|reflexivity].
      destruct (IH (client_pubs qs h st c rid cq ps w) ND' Ok) as [S1 _]. cbn [fst] in S1. rewrite S1.
      destruct (memb rid r) eqn:M; [|reflexivity]. apply memb_In in M. contradiction.
    + cbn [orb]. rewrite (client_other st c ps w).
      * destruct (IH w ND' Ok) as [S1 S2]. cbn [fst] in S1. split; [exact S1|exact S2].
      * intros p Hp. assert (Hp' : In p (fst (resource_event qs h c x))) by (rewrite Ex; exact Hp).
        rewrite (resource_event_rid c x p Hp'). exact E.
Qed.

(* ---- query resources ---- *)
Lemma query_rids_ok' : forall rids,
  snd (query_change_rids h rids) = HOk -> fst (query_change_rids h rids) = map PQueryEvent rids.
Proof.
  induction rids as [|x r IH]; intros H; [reflexivity|].
  cbn [query_change_rids] in *. destruct (h_resource h x); [|cbn in H; discriminate].
  destruct (query_change_rids h r) as [ps st]. cbn [fst snd] in *. rewrite (IH H). reflexivity.
Qed.

Lemma query_run : forall st c rids w,
  NoDup rids ->
  client_pubs qs h st c rid cq (map PQueryEvent rids) w =
  if memb rid rids then client_pubs qs h st c rid cq [PQueryEvent rid] w else w.
Proof.
  intros st c. induction rids as [|x r IH]; intros w ND; [reflexivity|].
  inversion ND as [|? ? Nx ND']; subst. cbn [map]. rewrite memb_cons, (beq_sym' rid x).
  destruct (beq x rid) eqn:E.
  - apply beq_eq in E. subst x. cbn [orb].
    change (PQueryEvent rid :: map PQueryEvent r) with ([PQueryEvent rid] ++ map PQueryEvent r).
    rewrite client_pubs_app', IH by exact ND'.
    destruct (memb rid r) eqn:M; [|reflexivity]. apply memb_In in M. contradiction.
  - cbn [orb client_pubs]. rewrite E. apply IH. exact ND'.
Qed.

(* ---- the conversation of one change, served at the state right after it ---- *)
Lemma handler_step_coherent_pf : forall s s' c l l' evs reset,
  qs_query qs s q = Some l -> qs_query qs s' q = Some l' ->
  qs_events qs c q = Some (evs, reset) ->
  (reset = false -> raw_apply evs l = Some l' /\ (forall f, h_trans h = TrModel f -> raw_nodup evs l)) ->
  (evs <> [] -> type_fits h) ->
  snd (handle_change qs h c) = HOk ->
  NoDup (announced h c) ->
  ((reset = true \/ evs <> []) -> In rid (announced h c)) ->
  view_equiv (client_step qs h s' c rid cq (view_of_get (get_resource qs h s rid cq)))
             (view_of_get (get_resource qs h s' rid cq)).
Proof.
  intros s s' c l l' evs reset F F' Ev Sound Ty Ok ND Ann.
  rewrite (fresh_gen s l F), (fresh_gen s' l' F').
  set (w := Some (h_type h, transform_result (h_trans h) l)).
  (* the outcome of one conversation on rid *)
  assert (Same : reset = false -> evs = [] -> l' = l).
  { intros R E. destruct (Sound R) as [Ra _]. subst evs. cbn in Ra. congruence. }
  unfold client_step, handle_change in *. destruct (is_query h) eqn:IsQ.
  - rewrite (query_rids_ok' _ Ok). rewrite query_run by exact ND.
    assert (Conv : view_equiv (client_pubs qs h s' c rid cq [PQueryEvent rid] w)
                              (Some (h_type h, transform_result (h_trans h) l'))).
    { cbn [client_pubs]. rewrite beq_refl. unfold query_request.
      unfold is_query, sub_query in *. destruct (h_qrh h) as [f|]; [|discriminate].
      destruct (f rid cq) as [[q0 norm]|]; [|discriminate]. destruct (is_nil norm); [discriminate|].
      inversion Hq; subst q0. rewrite Ev. destruct reset.
      - unfold get_result. rewrite F'. apply view_equiv_refl.
      - destruct evs as [|e r] eqn:Ee.
        + rewrite view_apply_nil'. rewrite (Same eq_refl eq_refl). apply view_equiv_refl.
        + destruct (Sound eq_refl) as [Ra Nd].
          destruct (delivered (e :: r) l l' (Ty ltac:(discriminate)) ltac:(discriminate) Ra Nd) as [sent [Rs Eq]].
          rewrite (addrem_transformable _ _ (raw_apply_addrem _ _ _ Ra)). rewrite Rs. exact Eq. }
    destruct (memb rid (announced h c)) eqn:M; [exact Conv|].
    destruct reset.
    + exfalso. assert (In rid (announced h c)) by (apply Ann; left; reflexivity).
      apply memb_In in H. congruence.
    + destruct evs as [|e r].
      * rewrite (Same eq_refl eq_refl). apply view_equiv_refl.
      * exfalso. assert (In rid (announced h c)) by (apply Ann; right; discriminate).
        apply memb_In in H. congruence.
  - destruct (plain_run s' c (announced h c) w ND Ok) as [Run Okr]. rewrite Run.
    assert (PQ : plain_query h rid = Some q).
    { unfold is_query, sub_query in *. destruct (h_qrh h); [discriminate|exact Hq]. }
    destruct (memb rid (announced h c)) eqn:M.
    + specialize (Okr eq_refl). unfold resource_event in *.
      destruct (negb (h_resource h rid)); [cbn in Okr; discriminate|].
      rewrite PQ in *. rewrite Ev in *. destruct reset.
      * cbn [fst client_pubs]. rewrite beq_refl. rewrite (fresh_gen s' l' F'). apply view_equiv_refl.
      * destruct evs as [|e r] eqn:Ee.
        -- cbn [fst client_pubs]. rewrite (Same eq_refl eq_refl). apply view_equiv_refl.
        -- destruct (Sound eq_refl) as [Ra Nd].
           destruct (delivered (e :: r) l l' (Ty ltac:(discriminate)) ltac:(discriminate) Ra Nd) as [sent [Rs Eq]].
           rewrite (addrem_transformable _ _ (raw_apply_addrem _ _ _ Ra)).
           rewrite (send_resp rid _ sent Rs). cbn [fst]. rewrite client_events. exact Eq.
    + destruct reset.
      * exfalso. assert (In rid (announced h c)) by (apply Ann; left; reflexivity).
        apply memb_In in H. congruence.
      * destruct evs as [|e r].
        -- rewrite (Same eq_refl eq_refl). apply view_equiv_refl.
        -- exfalso. assert (In rid (announced h c)) by (apply Ann; right; discriminate).
           apply memb_In in H. congruence.
Qed.

End Step.
