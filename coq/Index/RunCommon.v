(* Definitions shared by Run/Run_C13.v and Run/Run_C14.v: the concrete store the
   harness builds (values with two index keys, indexes "k" and "kb"), query
   descriptions and decidable equalities.  No proofs. *)
From GoRes Require Export Index.Spec Index.QHandler.
Open Scope N_scope.

(* a stored value as the index sees it: key of index "k" (never nil), key of
   index "kb" (nil = not indexed) *)
Definition val := (bytes * option bytes)%type.
Definition ix_a : index val := Index [107] (fun v => Some (fst v)).
Definition ix_b : index val := Index [107; 98] (fun v => snd v).
Definition idxs : list (index val) := [ix_a; ix_b].
Definition ix_of (n : N) : index val := if n =? 0 then ix_a else ix_b.

(* key filters, the same functions as in harness/cmd/index *)
Definition filt_of (n : N) : option (bytes -> bool) :=
  match n with
  | 0 => None
  | 1 => Some (fun k => Nat.even (length k))
  | 2 => Some (fun k => match k with c :: _ => c <? 98 | [] => false end)
  | _ => Some (fun k => match k with c :: _ => negb (c =? 0) | [] => true end)
  end.

Record qd := QD { q_ix : N; q_prefix : bytes; q_filt : N; q_off : Z; q_lim : Z; q_rev : bool }.
Definition to_iq (q : qd) : iquery val :=
  IQ (ix_of (q_ix q)) (q_prefix q) (filt_of (q_filt q)) (q_off q) (q_lim q) (q_rev q).

Fixpoint lbeq (a b : list bytes) : bool :=
  match a, b with
  | [], [] => true
  | x :: a', y :: b' => beq x y && lbeq a' b'
  | _, _ => false
  end.
Definition outcome_eqb (a b : outcome) : bool :=
  match a, b with
  | FOk x, FOk y => lbeq x y
  | FErr, FErr => true
  | FPanic, FPanic => true
  | _, _ => false
  end.
Definition val_eqb (a b : val) : bool := beq (fst a) (fst b) && obeq (snd a) (snd b).
Definition oval_eqb (a b : option val) : bool :=
  match a, b with Some x, Some y => val_eqb x y | None, None => true | _, _ => false end.
Definition change_eqb (a b : change val) : bool :=
  let '(i1, b1, a1) := a in let '(i2, b2, a2) := b in beq i1 i2 && oval_eqb b1 b2 && oval_eqb a1 a2.
Fixpoint list_eqb {A} (f : A -> A -> bool) (a b : list A) : bool :=
  match a, b with
  | [], [] => true
  | x :: a', y :: b' => f x y && list_eqb f a' b'
  | _, _ => false
  end.

(* the specification evaluated on a value store *)
Definition spec_on (st : vstore val) (q : qd) : outcome :=
  FOk (spec_query (to_iq q) (entries_of (ix_of (q_ix q)) st)).

(* the key space the stored values require *)
Definition keys_of_store (st : vstore val) : kdb :=
  fold_left (fun d ix => fold_left (fun d e => db_set (get_key (iname ix) (fst e) (snd e)) d)
                                   (entries_of ix st) d) idxs [].

(* same finite map id -> value *)
Definition store_eqb (a b : vstore val) : bool :=
  forallb (fun p => oval_eqb (st_get (fst p) a) (st_get (fst p) b)) (a ++ b).

(* a history step: a mutation, or Store.Init with its seeds.  Init on a store that was not initialised before
   writes the seeds whose id holds no value yet - a batch of creates, those of existing ids failing - and marks the
   store initialised; on an initialised store it does nothing. *)
Inductive step := SMut (m : mutation val) | SInit (seeds : list (bytes * val)).
Fixpoint flatten_steps (inited : bool) (l : list step) : list (mutation val) * bool :=
  match l with
  | [] => ([], inited)
  | SMut m :: r => let (ms, i') := flatten_steps inited r in (m :: ms, i')
  | SInit seeds :: r =>
    let (ms, i') := flatten_steps true r in
    ((if inited then [] else map (fun p => MCreate (fst p) (snd p)) seeds) ++ ms, i')
  end.

Fixpoint run_idx {A} (f : A -> list N) (i : N) (cs : list A) : list (N * N) :=
  match cs with
  | [] => []
  | c :: r => map (fun k => (i, k)) (f c) ++ run_idx f (i + 1) r
  end.
