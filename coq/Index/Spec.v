(* Abstract specification of an index query (C13): filter the (key, id) entries
   by prefix and key filter, sort bytewise by (key, id), reverse if asked, cut
   by offset and limit.  Also the predicates the theorems are stated with. *)
From GoRes Require Export Index.Model.
Open Scope N_scope.

Definition entry := (bytes * bytes)%type.     (* index key, id *)

(* strict bytewise order on (key, id) *)
Definition plt (a b : entry) : bool :=
  blt (fst a) (fst b) || (beq (fst a) (fst b) && blt (snd a) (snd b)).

Fixpoint pinsert (x : entry) (l : list entry) : list entry :=
  match l with
  | [] => [x]
  | y :: l' => if plt x y then x :: l else y :: pinsert x l'
  end.
Fixpoint sort_by_key_id (l : list entry) : list entry :=
  match l with
  | [] => []
  | x :: l' => pinsert x (sort_by_key_id l')
  end.

Definition maybe_rev {A} (r : bool) (l : list A) : list A := if r then rev l else l.

(* offset then limit; limit = 0 nothing, limit < 0 everything; offset <= 0 is 0 *)
Definition window {A} (offset limit : Z) (l : list A) : list A :=
  if (limit =? 0)%Z then []
  else let l' := skipn (Z.to_nat offset) l in
       if (limit <? 0)%Z then l' else firstn (Z.to_nat limit) l'.

Definition key_matches (prefix : bytes) (filt : option (bytes -> bool)) (k : bytes) : bool :=
  has_prefix prefix k && filter_ok filt k.

Definition spec_query_on (prefix : bytes) (filt : option (bytes -> bool)) (offset limit : Z)
           (reverse : bool) (entries : list entry) : list bytes :=
  window offset limit
    (map snd (maybe_rev reverse
       (sort_by_key_id (filter (fun e => key_matches prefix filt (fst e)) entries)))).

Definition spec_query {V} (q : iquery V) (entries : list entry) : list bytes :=
  spec_query_on (qprefix q) (qfilter q) (qoffset q) (qlimit q) (qrev q) entries.

(* ---- boolean hypotheses ---- *)
Definition nul_free (b : bytes) : bool := forallb (fun c => negb (c =? nul)) b.
Definition colon_free (b : bytes) : bool := forallb (fun c => negb (c =? colon)) b.
Definition bytes_ok (b : bytes) : bool := forallb (fun c => c <? 256) b.     (* real bytes *)
Definition entry_nul_free (e : entry) : bool := nul_free (fst e) && nul_free (snd e).
Definition entries_nul_free (es : list entry) : bool := forallb entry_nul_free es.
Definition db_bytes_ok (d : kdb) : bool := forallb bytes_ok d.

(* the key space is strictly ascending *)
Fixpoint sortedb (d : kdb) : bool :=
  match d with
  | [] => true
  | x :: d' => match d' with [] => true | y :: _ => blt x y && sortedb d' end
  end.

(* [entries] is exactly the slice of the key space under "name:" *)
Definition index_slice (name : bytes) (d : kdb) (entries : list entry) : Prop :=
  (forall k, In k d -> has_prefix (name ++ [colon]) k = true ->
             exists e, In e entries /\ k = get_key name (fst e) (snd e)) /\
  (forall e, In e entries -> In (get_key name (fst e) (snd e)) d).

(* per-key meaning of "the key matches the query" for C14; a value that is
   absent or whose Key callback returns nil has no key and matches nothing *)
Definition okey_matches (prefix : bytes) (filt : option (bytes -> bool)) (ok : option bytes) : bool :=
  match ok with Some k => key_matches prefix filt k | None => false end.

(* the state the index maintenance keeps: ids are unique and NUL-free, the key
   space is sorted and holds exactly the laid-out entries of every index *)
Definition index_state {V} (idxs : list (index V)) (s : vstore V) (d : kdb) : Prop :=
  NoDup (map fst s) /\
  (forall id v, In (id, v) s -> nul_free id = true) /\
  sortedb d = true /\
  (forall k, In k d <-> exists ix e, In ix idxs /\ In e (entries_of ix s) /\
                                      k = get_key (iname ix) (fst e) (snd e)).

(* index names are distinct and contain no ':' *)
Definition names_ok {V} (idxs : list (index V)) : Prop :=
  (forall ix, In ix idxs -> colon_free (iname ix) = true) /\ NoDup (map iname idxs).

Definition mut_id {V} (m : mutation V) : bytes :=
  match m with MCreate id _ => id | MUpdate id _ => id | MDelete id => id end.
Definition muts_ids_nul_free {V} (ms : list (mutation V)) : bool :=
  forallb (fun m => nul_free (mut_id m)) ms.

(* per-id chained change sequences - what Store.OnChange delivers under any
   interleaving of writers: each change's before value is the stored value *)
Fixpoint chain_ok {V} (s : vstore V) (cs : list (change V)) : Prop :=
  match cs with
  | [] => True
  | c :: r => st_get (fst (fst c)) s = snd (fst c) /\ nul_free (fst (fst c)) = true /\
              chain_ok (apply_change s c) r
  end.

(* ---- C14: query-change callbacks ---- *)
(* some index key of the value differs between before and after *)
Definition key_changed {V} (idxs : list (index V)) (c : change V) : bool :=
  let '(_, b, a) := c in
  existsb (fun ix => negb (okey_eq (opt_key ix b) (opt_key ix a))) idxs.

(* the index after the changes [cs], processed in order *)
Definition index_after {V} (idxs : list (index V)) (d : kdb) (cs : list (change V)) : kdb :=
  fst (run_changes idxs 0 d cs).

(* what the index tasks of [cs] must do: per change, in order, the index
   transaction, then - iff a key changed - each of the [ncb] callbacks once,
   each seeing the index after that transaction *)
Fixpoint expected_effects {V} (idxs : list (index V)) (ncb : nat) (d : kdb) (cs : list (change V))
  : list (effect V) :=
  match cs with
  | [] => []
  | c :: r =>
    let d' := index_after idxs d [c] in
    EIndexTxn (fst (fst c)) d' ::
    (if key_changed idxs c
     then map (fun j => ECallback j (fst (fst c)) (snd (fst c)) (snd c) d') (seq 0 ncb) else [])
    ++ expected_effects idxs ncb d' r
  end.

(* the notifications callback number j received, in order *)
Definition cb_log {V} (j : nat) (es : list (effect V)) : list (change V) :=
  flat_map (fun e => match e with
                     | ECallback j' id b a _ => if Nat.eqb j' j then [(id, b, a)] else []
                     | _ => []
                     end) es.
