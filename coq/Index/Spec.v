(* Abstract specification of an index query (C13): filter the (key, id) entries
   by prefix and key filter, sort bytewise by (key, id), reverse if asked, cut
   by offset and limit.  Also the predicates the theorems are stated with. *)
From GoRes Require Export Index.Model.
Open Scope N_scope.

Definition entry := (bytes * bytes)%type.     (* index key, id *)

(* strict bytewise order on (key, id) *)
Definition plt (a b : entry) : bool :=
  blt (fst a) (fst b) || (beq (fst a) (fst b) && blt (snd a) (snd b)).

Fixpoint pinsert (x : entry) (l : list entry) : list entry :=
  match l with
  | [] => [x]
  | y :: l' => if plt x y then x :: l else y :: pinsert x l'
  end.
Fixpoint sort_by_key_id (l : list entry) : list entry :=
  match l with
  | [] => []
  | x :: l' => pinsert x (sort_by_key_id l')
  end.

Definition maybe_rev {A} (r : bool) (l : list A) : list A := if r then rev l else l.

(* offset then limit; limit = 0 nothing, limit < 0 everything; offset <= 0 is 0 *)
Definition window {A} (offset limit : Z) (l : list A) : list A :=
  if (limit =? 0)%Z then []
  else let l' := skipn (Z.to_nat offset) l in
       if (limit <? 0)%Z then l' else firstn (Z.to_nat limit) l'.

Definition key_matches (prefix : bytes) (filt : option (bytes -> bool)) (k : bytes) : bool :=
  has_prefix prefix k && filter_ok filt k.

Definition spec_query_on (prefix : bytes) (filt : option (bytes -> bool)) (offset limit : Z)
           (reverse : bool) (entries : list entry) : list bytes :=
  window offset limit
    (map snd (maybe_rev reverse
       (sort_by_key_id (filter (fun e => key_matches prefix filt (fst e)) entries)))).

Definition spec_query {V} (q : iquery V) (entries : list entry) : list bytes :=
  spec_query_on (qprefix q) (qfilter q) (qoffset q) (qlimit q) (qrev q) entries.

(* ---- boolean hypotheses ---- *)
Definition nul_free (b : bytes) : bool := forallb (fun c => negb (c =? nul)) b.
Definition colon_free (b : bytes) : bool := forallb (fun c => negb (c =? colon)) b.
Definition bytes_ok (b : bytes) : bool := forallb (fun c => c <? 256) b.     (* real bytes *)
Definition entry_nul_free (e : entry) : bool := nul_free (fst e) && nul_free (snd e).
Definition entries_nul_free (es : list entry) : bool := forallb entry_nul_free es.
Definition db_bytes_ok (d : kdb) : bool := forallb bytes_ok d.

(* the key space is strictly ascending *)
Fixpoint sortedb (d : kdb) : bool :=
  match d with
  | [] => true
  | x :: d' => match d' with [] => true | y :: _ => blt x y && sortedb d' end
  end.

(* [entries] is exactly the slice of the key space under "name:" *)
Definition index_slice (name : bytes) (d : kdb) (entries : list entry) : Prop :=
  (forall k, In k d -> has_prefix (name ++ [colon]) k = true ->
             exists e, In e entries /\ k = get_key name (fst e) (snd e)) /\
  (forall e, In e entries -> In (get_key name (fst e) (snd e)) d).

(* per-key meaning of "the key matches the query" for C14; a value that is
   absent or whose Key callback returns nil has no key and matches nothing *)
Definition okey_matches (prefix : bytes) (filt : option (bytes -> bool)) (ok : option bytes) : bool :=
  match ok with Some k => key_matches prefix filt k | None => false end.
