(* The (key, id) order, insertion sort, uniqueness of sorted duplicate-free
   lists, and how the key layout carries the pair order to the byte order. *)
From GoRes Require Import Index.Spec Index.ProofsOrder.
From Coq Require Import Sorting.Sorted.
Open Scope N_scope.

Definition pltP (a b : entry) : Prop := plt a b = true.

Lemma plt_irrefl : forall a, plt a a = false.
Proof. intros [k i]. unfold plt. cbn. rewrite !blt_irrefl. rewrite andb_false_r. reflexivity. Qed.

Lemma plt_trans : forall a b c, plt a b = true -> plt b c = true -> plt a c = true.
Proof.
  intros [k1 i1] [k2 i2] [k3 i3]. unfold plt. cbn. intros H1 H2.
  apply orb_true_iff in H1. apply orb_true_iff in H2. apply orb_true_iff.
  destruct H1 as [H1|H1]; destruct H2 as [H2|H2].
  - left. eapply blt_trans; eassumption.
  - apply andb_true_iff in H2 as [E _]. apply beq_eq in E. subst. left; assumption.
  - apply andb_true_iff in H1 as [E _]. apply beq_eq in E. subst. left; assumption.
  - apply andb_true_iff in H1 as [E1 L1]. apply andb_true_iff in H2 as [E2 L2].
    apply beq_eq in E1. apply beq_eq in E2. subst. right. rewrite beq_refl. cbn.
    eapply blt_trans; eassumption.
Qed.

Lemma plt_total : forall a b, plt a b = true \/ a = b \/ plt b a = true.
Proof.
  intros [k1 i1] [k2 i2]. unfold plt. cbn.
  destruct (blt_total k1 k2) as [H|[H|H]].
  - left. rewrite H. reflexivity.
  - subst. rewrite beq_refl, blt_irrefl. cbn.
    destruct (blt_total i1 i2) as [H|[H|H]]; [left; assumption|right; left; congruence|right; right; assumption].
  - right; right. rewrite H. reflexivity.
Qed.

Lemma plt_asym : forall a b, plt a b = true -> plt b a = false.
Proof.
  intros a b H. destruct (plt b a) eqn:E; [|reflexivity].
  pose proof (plt_trans _ _ _ H E) as T. rewrite plt_irrefl in T. discriminate.
Qed.

(* ---- generic facts on strongly sorted lists ---- *)
Lemma SS_filter_gen : forall {A} (R : A -> A -> Prop) (f : A -> bool) l,
  StronglySorted R l -> StronglySorted R (filter f l).
Proof.
  induction l as [|x l IH]; intros H; [constructor|].
  inversion H as [|? ? SS FA]; subst. cbn. destruct (f x).
  - constructor; [apply IH; assumption|].
    apply Forall_forall. intros z Hz. apply filter_In in Hz as [Hz _].
    rewrite Forall_forall in FA. apply FA; assumption.
  - apply IH; assumption.
Qed.

Lemma SS_app : forall {A} (R : A -> A -> Prop) l1 l2,
  StronglySorted R l1 -> StronglySorted R l2 ->
  (forall x y, In x l1 -> In y l2 -> R x y) -> StronglySorted R (l1 ++ l2).
Proof.
  induction l1 as [|a l1 IH]; intros l2 H1 H2 H; [exact H2|].
  inversion H1 as [|? ? SS FA]; subst. cbn. constructor.
  - apply IH; [assumption|assumption|]. intros x y Hx Hy. apply H; [right; assumption|assumption].
  - apply Forall_forall. intros z Hz. apply in_app_or in Hz as [Hz|Hz].
    + rewrite Forall_forall in FA. apply FA; assumption.
    + apply H; [left; reflexivity|assumption].
Qed.

Lemma SS_rev : forall {A} (R : A -> A -> Prop) l,
  StronglySorted R l -> StronglySorted (fun a b => R b a) (rev l).
Proof.
  induction l as [|a l IH]; intros H; [constructor|].
  inversion H as [|? ? SS FA]; subst. cbn. apply SS_app.
  - apply IH; assumption.
  - constructor; constructor.
  - intros x y Hx [Hy|[]]. subst. apply in_rev in Hx. rewrite Forall_forall in FA. apply FA; assumption.
Qed.

Lemma SS_In_lt : forall {A} (R : A -> A -> Prop) a l x, StronglySorted R (a :: l) -> In x l -> R a x.
Proof.
  intros A R a l x H Hx. inversion H as [|? ? SS FA]; subst. rewrite Forall_forall in FA. apply FA; assumption.
Qed.

Lemma sorted_unique : forall {A} (R : A -> A -> Prop),
  (forall a, ~ R a a) -> (forall a b, R a b -> R b a -> False) ->
  forall l1 l2, StronglySorted R l1 -> StronglySorted R l2 ->
  (forall x, In x l1 <-> In x l2) -> l1 = l2.
Proof.
  intros A R Irr Asym. induction l1 as [|a l1 IH]; intros l2 S1 S2 H.
  - destruct l2 as [|b l2]; [reflexivity|]. exfalso. apply (H b). left; reflexivity.
  - destruct l2 as [|b l2]; [exfalso; apply (H a); left; reflexivity|].
    assert (E : a = b).
    { assert (Ha : In a (b :: l2)) by (apply H; left; reflexivity).
      assert (Hb : In b (a :: l1)) by (apply H; left; reflexivity).
      destruct Ha as [Ha|Ha]; [congruence|]. destruct Hb as [Hb|Hb]; [congruence|].
      exfalso. apply (Asym a b); [exact (SS_In_lt R a l1 b S1 Hb)|exact (SS_In_lt R b l2 a S2 Ha)]. }
    subst b. f_equal. apply IH.
    + inversion S1; assumption.
    + inversion S2; assumption.
    + intros x. split; intros Hx.
      * assert (Hx' : In x (a :: l2)) by (apply H; right; assumption).
        destruct Hx' as [Hx'|Hx']; [|assumption]. subst x. exfalso.
        apply (Irr a). exact (SS_In_lt R a l1 a S1 Hx).
      * assert (Hx' : In x (a :: l1)) by (apply H; right; assumption).
        destruct Hx' as [Hx'|Hx']; [|assumption]. subst x. exfalso.
        apply (Irr a). exact (SS_In_lt R a l2 a S2 Hx).
Qed.

(* ---- insertion sort ---- *)
Lemma pinsert_In : forall x y l, In y (pinsert x l) <-> y = x \/ In y l.
Proof.
  induction l as [|z l IH]; cbn.
  - intuition congruence.
  - destruct (plt x z); cbn; [intuition congruence|]. rewrite IH. intuition congruence.
Qed.

Lemma sort_In : forall y l, In y (sort_by_key_id l) <-> In y l.
Proof.
  induction l as [|x l IH]; cbn; [tauto|]. rewrite pinsert_In, IH. intuition congruence.
Qed.

Lemma pinsert_SS : forall x l, StronglySorted pltP l -> ~ In x l -> StronglySorted pltP (pinsert x l).
Proof.
  induction l as [|z l IH]; intros S N.
  - cbn. constructor; constructor.
  - cbn. destruct (plt x z) eqn:L.
    + constructor; [exact S|]. constructor; [exact L|].
      apply Forall_forall. intros w Hw. unfold pltP. eapply plt_trans; [exact L|].
      eapply (SS_In_lt pltP); eassumption.
    + assert (Lzx : plt z x = true).
      { destruct (plt_total x z) as [T|[T|T]]; [congruence| |exact T]. exfalso. apply N. left; congruence. }
      inversion S as [|? ? SS FA]; subst. constructor.
      * apply IH; [assumption|]. intros H. apply N. right; assumption.
      * apply Forall_forall. intros w Hw. apply pinsert_In in Hw as [Hw|Hw].
        -- subst. exact Lzx.
        -- rewrite Forall_forall in FA. apply FA; assumption.
Qed.

Lemma sort_SS : forall l, NoDup l -> StronglySorted pltP (sort_by_key_id l).
Proof.
  induction l as [|x l IH]; intros H; [constructor|].
  inversion H; subst. cbn. apply pinsert_SS; [apply IH; assumption|].
  rewrite sort_In. assumption.
Qed.

Lemma sorted_is_sort : forall l F,
  NoDup l -> StronglySorted pltP F -> (forall x, In x F <-> In x l) -> F = sort_by_key_id l.
Proof.
  intros l F ND SF H. apply (sorted_unique pltP).
  - intros a Ha. unfold pltP in Ha. rewrite plt_irrefl in Ha. discriminate.
  - intros a b H1 H2. unfold pltP in *. rewrite (plt_asym _ _ H1) in H2. discriminate.
  - exact SF.
  - apply sort_SS; assumption.
  - intros x. rewrite sort_In. apply H.
Qed.

(* ---- key layout ---- *)
Lemma get_key_split : forall n k i, get_key n k i = (n ++ [colon]) ++ (k ++ nul :: i).
Proof. intros. unfold get_key. rewrite <- app_assoc. reflexivity. Qed.
Lemma get_query_split : forall n p, get_query n p = (n ++ [colon]) ++ p.
Proof. intros. unfold get_query. rewrite <- app_assoc. reflexivity. Qed.

Lemma key_sep_mono : forall k1 k2 i1 i2,
  blt k1 k2 = true -> nul_free k2 = true -> blt (k1 ++ nul :: i1) (k2 ++ nul :: i2) = true.
Proof.
  induction k1 as [|c k1 IH]; intros [|d k2] i1 i2 H NF; try discriminate.
  - cbn in NF. apply andb_true_iff in NF as [Hd _]. cbn [app]. rewrite blt_cons. unfold nul in *.
    destruct (N.eqb_spec d 0); [discriminate|]. destruct (N.ltb_spec 0 d); [reflexivity|lia].
  - cbn in NF. apply andb_true_iff in NF as [_ NF]. cbn [app]. rewrite blt_cons in *.
    destruct (c <? d); [reflexivity|]. destruct (c =? d); [|discriminate]. apply IH; assumption.
Qed.

Lemma get_key_mono : forall n e1 e2,
  plt e1 e2 = true -> nul_free (fst e2) = true ->
  blt (get_key n (fst e1) (snd e1)) (get_key n (fst e2) (snd e2)) = true.
Proof.
  intros n [k1 i1] [k2 i2] H NF. cbn [fst snd] in *. rewrite !get_key_split, blt_app.
  unfold plt in H. cbn [fst snd] in H. apply orb_true_iff in H as [H|H].
  - apply key_sep_mono; assumption.
  - apply andb_true_iff in H as [E L]. apply beq_eq in E. subst. rewrite blt_app.
    rewrite blt_cons. unfold nul. cbn. exact L.
Qed.

Lemma app_eq_len : forall {A} (a b x y : list A), length a = length b -> a ++ x = b ++ y -> a = b /\ x = y.
Proof.
  induction a as [|c a IH]; intros [|d b] x y L H; try discriminate.
  - split; [reflexivity|exact H].
  - cbn in L, H. inversion H; subst. destruct (IH b x y) as [E1 E2]; [lia|assumption|]. subst. split; reflexivity.
Qed.

Lemma last_nul_free : forall i, nul_free i = true -> last_nul i = None.
Proof.
  induction i as [|c i IH]; intros H; [reflexivity|].
  cbn in H. apply andb_true_iff in H as [Hc H]. cbn. rewrite (IH H).
  destruct (c =? nul); [discriminate|reflexivity].
Qed.

Lemma last_nul_sep : forall a i, nul_free i = true -> last_nul (a ++ nul :: i) = Some (length a).
Proof.
  induction a as [|c a IH]; intros i H.
  - cbn. rewrite (last_nul_free i H). reflexivity.
  - cbn [app length]. cbn [last_nul]. rewrite (IH i H). reflexivity.
Qed.

Lemma sep_inj : forall k1 i1 k2 i2,
  nul_free i1 = true -> nul_free i2 = true -> k1 ++ nul :: i1 = k2 ++ nul :: i2 -> k1 = k2 /\ i1 = i2.
Proof.
  intros k1 i1 k2 i2 H1 H2 E.
  assert (L : length k1 = length k2).
  { pose proof (last_nul_sep k1 i1 H1) as A. pose proof (last_nul_sep k2 i2 H2) as B.
    rewrite E in A. congruence. }
  destruct (app_eq_len _ _ _ _ L E) as [E1 E2]. split; [exact E1|congruence].
Qed.

Lemma get_key_inj : forall n k1 i1 k2 i2,
  nul_free i1 = true -> nul_free i2 = true -> get_key n k1 i1 = get_key n k2 i2 -> k1 = k2 /\ i1 = i2.
Proof.
  intros n k1 i1 k2 i2 H1 H2 E. rewrite !get_key_split in E. apply app_inv_head in E.
  apply sep_inj; assumption.
Qed.

(* order of two laid-out entries reflects the pair order *)
Lemma get_key_reflect : forall n e1 e2,
  nul_free (fst e1) = true ->
  blt (get_key n (fst e1) (snd e1)) (get_key n (fst e2) (snd e2)) = true -> plt e1 e2 = true.
Proof.
  intros n e1 e2 NF H. destruct (plt_total e1 e2) as [T|[T|T]]; [exact T| |].
  - subst. rewrite blt_irrefl in H. discriminate.
  - pose proof (get_key_mono n _ _ T NF) as M. rewrite (blt_asym _ _ M) in H. discriminate.
Qed.
