(* handler_coherent: a client of a store.QueryHandler resource on badgerstore
   holds a fresh get after the conversations of any change sequence, whenever
   each conversation is served (at the change or any later index state). *)
From GoRes Require Import Index.QHandler Index.ProofsOrder Index.ProofsSort Index.ProofsQuery
     Index.ProofsInv Index.ProofsChange.
Open Scope N_scope.

Lemma beq_sym : forall a b, beq a b = beq b a.
Proof.
  intros a b. destruct (beq a b) eqn:E.
  - apply beq_eq in E. subst. symmetry. apply beq_refl.
  - destruct (beq b a) eqn:E'; [|reflexivity]. apply beq_eq in E'. subst. rewrite beq_refl in E. discriminate.
Qed.

Section B.
Context {V : Type}.
Variable idxs : list (index V).
Variable h : qhandler (change V) (iquery V).
Variable rid cq : bytes.
Variable q : iquery V.
Hypothesis Hn : names_ok idxs.
Hypothesis Hq : sub_query h rid cq = Some q.
Hypothesis Hin : In (qidx q) idxs.

Notation fresh d := (fresh_get h d rid cq).

Lemma affects_key_changed : forall id b a,
  affects_query q b a = true -> key_changed idxs (id, b, a) = true.
Proof.
  intros id b a H. unfold key_changed. apply existsb_exists. exists (qidx q). split; [exact Hin|].
  unfold affects_query in H. destruct (okey_eq (opt_key (qidx q) b) (opt_key (qidx q) a)); [discriminate|reflexivity].
Qed.

Lemma view_apply_nil : forall w : view, view_apply w [] = w.
Proof. intros [[t v]|]; reflexivity. Qed.

Lemma client_pubs_app : forall (d : kdb) (c : change V) ps1 ps2 w,
  client_pubs bs_store h d c rid cq (ps1 ++ ps2) w =
  client_pubs bs_store h d c rid cq ps2 (client_pubs bs_store h d c rid cq ps1 w).
Proof. induction ps1 as [|p ps1 IH]; intros; [reflexivity|]. cbn [app client_pubs]. apply IH. Qed.

(* the fresh get in terms of the index query *)
Lemma fresh_ok : forall d l, fetch_collection d q = FOk l ->
  fresh d = Some (h_type h, transform_result (h_trans h) l).
Proof.
  intros d l F. unfold fresh_get, get_resource, sub_query in *.
  destruct (h_qrh h) as [f|].
  - destruct (f rid cq) as [[q0 norm]|]; [|discriminate]. destruct (is_nil norm) eqn:En; [discriminate|].
    inversion Hq; subst q0. unfold get_result. cbn [bs_store qs_query]. rewrite F. reflexivity.
  - rewrite Hq. unfold get_result. cbn [bs_store qs_query]. rewrite F. reflexivity.
Qed.

Lemma fresh_congr : forall d d', fetch_collection d q = fetch_collection d' q -> fresh d = fresh d'.
Proof.
  intros d d' E. unfold fresh_get, get_resource, sub_query in *.
  destruct (h_qrh h) as [f|].
  - destruct (f rid cq) as [[q0 norm]|]; [|reflexivity]. destruct (is_nil norm) eqn:En; [discriminate|].
    inversion Hq; subst q0. unfold get_result. cbn [bs_store qs_query]. rewrite E. reflexivity.
  - rewrite Hq. unfold get_result. cbn [bs_store qs_query]. rewrite E. reflexivity.
Qed.

(* ---- query resources ---- *)
Lemma query_rids_ok : forall rids,
  (forall r, In r rids -> h_resource h r = true) ->
  query_change_rids h rids = (map PQueryEvent rids, HOk).
Proof.
  induction rids as [|x r IH]; intros H; [reflexivity|].
  cbn [query_change_rids map]. rewrite (H x (or_introl eq_refl)). rewrite IH; [reflexivity|].
  intros r' Hr'. apply H. right; exact Hr'.
Qed.

Lemma client_query_pubs : forall d (c : change V) l rids w,
  is_query h = true -> fetch_collection d q = FOk l ->
  client_pubs bs_store h d c rid cq (map PQueryEvent rids) w =
  if affects_query q (snd (fst c)) (snd c) && memb rid rids then fresh d else w.
Proof.
  intros d c l rids w IsQ F. rewrite (fresh_ok d l F). revert w.
  unfold is_query, sub_query in *. destruct (h_qrh h) as [f|] eqn:Ef; [|discriminate].
  destruct (f rid cq) as [[q0 norm]|] eqn:Efr; [|discriminate]. destruct (is_nil norm); [discriminate|].
  inversion Hq; subst q0.
  assert (QR : query_request bs_store h d c rid cq =
               if affects_query q (snd (fst c)) (snd c)
               then QRValue (h_type h) (transform_result (h_trans h) l) else QREvents []).
  { unfold query_request. rewrite Ef, Efr. cbn [bs_store qs_events].
    destruct (affects_query q (snd (fst c)) (snd c)); [|reflexivity].
    unfold get_result. cbn [bs_store qs_query]. rewrite F. reflexivity. }
  induction rids as [|x r IH]; intros w.
  - cbn. rewrite andb_false_r. reflexivity.
  - cbn [map client_pubs]. unfold memb. cbn [existsb]. rewrite (beq_sym rid x).
    destruct (beq x rid) eqn:E.
    + rewrite QR. destruct (affects_query q (snd (fst c)) (snd c)) eqn:Aff.
      * rewrite IH. cbn [andb orb]. destruct (memb rid r); reflexivity.
      * rewrite view_apply_nil, IH. reflexivity.
    + rewrite IH. reflexivity.
Qed.

(* ---- ordinary resources ---- *)
Lemma client_plain_pubs : forall d (c : change V) l rids w,
  is_query h = false -> fetch_collection d q = FOk l ->
  (forall r, In r rids -> h_resource h r = true /\ plain_query h r <> None) ->
  snd (change_handler_rids bs_store h c rids) = HOk /\
  client_pubs bs_store h d c rid cq (fst (change_handler_rids bs_store h c rids)) w =
  if affects_query q (snd (fst c)) (snd c) && memb rid rids then fresh d else w.
Proof.
  intros d c l rids w IsQ F. revert w.
  assert (PQ : plain_query h rid = Some q).
  { unfold is_query, sub_query in *. destruct (h_qrh h); [discriminate|exact Hq]. }
  assert (Fr : view_of_get (get_resource bs_store h d rid cq) = fresh d) by reflexivity.
  induction rids as [|x r IH]; intros w Hres.
  - cbn. rewrite andb_false_r. split; reflexivity.
  - destruct (Hres x (or_introl eq_refl)) as [Rx Px].
    destruct (plain_query h x) as [qx|] eqn:Eqx; [|contradiction Px; reflexivity].
    assert (RE : resource_event bs_store h c x =
                 (if affects_query qx (snd (fst c)) (snd c) then [PReset x] else [], HOk)).
    { unfold resource_event. rewrite Rx, Eqx. cbn [negb bs_store qs_events].
      destruct (affects_query qx (snd (fst c)) (snd c)); reflexivity. }
    cbn [change_handler_rids]. rewrite RE.
    specialize (IH) as IH'.
    assert (Hres' : forall r0, In r0 r -> h_resource h r0 = true /\ plain_query h r0 <> None)
      by (intros r0 Hr0; apply Hres; right; exact Hr0).
    destruct (change_handler_rids bs_store h c r) as [ps' st'] eqn:Er.
    cbn [fst snd]. split.
    + destruct (IH' w Hres') as [S1 _]. exact S1.
    + rewrite client_pubs_app.
      unfold memb. cbn [existsb]. rewrite (beq_sym rid x).
      destruct (beq x rid) eqn:E.
      * apply beq_eq in E. subst x. rewrite PQ in Eqx. inversion Eqx; subst qx.
        destruct (affects_query q (snd (fst c)) (snd c)) eqn:Aff.
        -- cbn [client_pubs]. rewrite beq_refl, Fr.
           destruct (IH' (fresh d) Hres') as [_ S2]. cbn [fst] in S2. rewrite S2.
           cbn [andb orb]. destruct (memb rid r); reflexivity.
        -- cbn [client_pubs]. destruct (IH' w Hres') as [_ S2]. cbn [fst] in S2. rewrite S2. reflexivity.
      * assert (Skip : client_pubs bs_store h d c rid cq
                         (if affects_query qx (snd (fst c)) (snd c) then [PReset x] else []) w = w).
        { destruct (affects_query qx (snd (fst c)) (snd c)); [|reflexivity]. cbn [client_pubs]. rewrite E. reflexivity. }
        rewrite Skip. destruct (IH' w Hres') as [_ S2]. cbn [fst] in S2. rewrite S2. reflexivity.
Qed.

(* ---- one conversation ---- *)
Lemma step_char : forall dn (c : change V) l w,
  fetch_collection dn q = FOk l ->
  (affects_query q (snd (fst c)) (snd c) = true -> memb rid (announced h c) = true) ->
  (forall r, In r (announced h c) ->
     h_resource h r = true /\ (is_query h = false -> plain_query h r <> None)) ->
  bs_client_step idxs h dn c rid cq w =
  if affects_query q (snd (fst c)) (snd c) then fresh dn else w.
Proof.
  intros dn [[id b] a] l w F Ann Res. cbn [fst snd] in *. unfold bs_client_step.
  destruct (key_changed idxs (id, b, a)) eqn:KC.
  - unfold client_step, handle_change. destruct (is_query h) eqn:IsQ.
    + rewrite query_rids_ok by (intros r Hr; apply Res; exact Hr). cbn [fst].
      rewrite (client_query_pubs dn (id, b, a) l _ w IsQ F). cbn [fst snd].
      destruct (affects_query q b a) eqn:Aff; [|reflexivity]. rewrite (Ann eq_refl). reflexivity.
    + destruct (client_plain_pubs dn (id, b, a) l (announced h (id, b, a)) w IsQ F) as [_ S2].
      { intros r Hr. destruct (Res r Hr) as [R1 R2]. split; [exact R1|apply R2; reflexivity]. }
      rewrite S2. cbn [fst snd].
      destruct (affects_query q b a) eqn:Aff; [|reflexivity]. rewrite (Ann eq_refl). reflexivity.
  - destruct (affects_query q b a) eqn:Aff; [|reflexivity].
    rewrite (affects_key_changed id b a Aff) in KC. discriminate.
Qed.

(* ---- the whole run ---- *)
Lemma chain_ok_app : forall (pre post : list (change V)) s,
  chain_ok s (pre ++ post) -> chain_ok s pre.
Proof.
  induction pre as [|c pre IH]; intros post s H; [exact I|].
  cbn [app chain_ok] in *. destruct H as [H1 [H2 H3]]. split; [exact H1|]. split; [exact H2|]. eapply IH; exact H3.
Qed.

Lemma index_after_nil : forall d, index_after idxs d [] = d.
Proof. reflexivity. Qed.

Lemma state_after : forall (pre : list (change V)) s d,
  index_state idxs s d -> chain_ok s pre ->
  index_state idxs (fold_left apply_change pre s) (index_after idxs d pre).
Proof.
  intros pre s d St C. destruct Hn as [CF ND]. unfold index_after. apply run_state; assumption.
Qed.

Lemma fetch_ok_at : forall s d, index_state idxs s d -> data_ok q s d ->
  exists l, fetch_collection d q = FOk l.
Proof.
  intros s d St [D1 [D2 D3]]. destruct Hn as [CF ND].
  destruct (state_slice_pf idxs CF ND s d (qidx q) St Hin) as [Sl [NDe _]].
  destruct St as [_ [_ [Sd _]]]. eexists. apply query_spec_pf; eassumption.
Qed.

Lemma unaffected_fresh : forall s d id a,
  index_state idxs s d -> nul_free id = true ->
  data_ok q s d ->
  data_ok q (st_put id a s) (index_after idxs d [(id, st_get id s, a)]) ->
  affects_query q (st_get id s) a = false ->
  fresh d = fresh (index_after idxs d [(id, st_get id s, a)]).
Proof.
  intros s d id a St Nid [A1 [A2 A3]] [B1 [B2 B3]] Aff.
  rewrite index_after_one in *.
  assert (E : fetch_collection d q = fetch_collection (fst (update_idxs idxs id (st_get id s) a d false)) q).
  { apply (affects_unchanged_pf idxs q s d id a); try assumption.
    - intros H. split; [apply A2|apply B2]; exact H.
    - intros H. split; [apply A3|apply B3]; exact H. }
  apply fresh_congr. exact E.
Qed.

Lemma run_coherent : forall (cs : list (change V)) s d w w',
  index_state idxs s d -> chain_ok s cs ->
  (forall c, In c cs -> affects_query q (snd (fst c)) (snd c) = true -> memb rid (announced h c) = true) ->
  (forall c, In c cs -> forall r, In r (announced h c) ->
     h_resource h r = true /\ (is_query h = false -> plain_query h r <> None)) ->
  (forall pre post, cs = pre ++ post -> data_ok q (fold_left apply_change pre s) (index_after idxs d pre)) ->
  client_run idxs h rid cq d cs w w' ->
  (exists pre post, cs = pre ++ post /\ w = fresh (index_after idxs d pre)) ->
  w' = fresh (index_after idxs d cs).
Proof.
  induction cs as [|c r IH]; intros s d w w' St C Ann Res Data Run Inv.
  - inversion Run; subst. destruct Inv as [pre [post [E W]]].
    destruct pre; [|discriminate]. exact W.
  - inversion Run as [|d0 c0 r0 dn w0 w0' Reach Run']; subst.
    destruct c as [[id b] a]. cbn [chain_ok fst snd] in C. destruct C as [Hb [Nid C]]. subst b.
    set (c := (id, st_get id s, a)) in *.
    set (s1 := apply_change s c). set (d1 := index_after idxs d [c]) in *.
    assert (St1 : index_state idxs s1 d1).
    { unfold s1, d1, c. rewrite index_after_one. destruct Hn as [CF ND]. apply state_step_pf; assumption. }
    assert (Data1 : forall pre post, r = pre ++ post ->
                      data_ok q (fold_left apply_change pre s1) (index_after idxs d1 pre)).
    { intros pre post E. specialize (Data (c :: pre) post). cbn [app fold_left] in Data.
      assert (Ed : index_after idxs d1 pre = index_after idxs d (c :: pre))
        by (symmetry; apply index_after_cons).
      rewrite Ed. apply Data. rewrite E. reflexivity. }
    rewrite (index_after_cons idxs d c r). fold d1.
    apply (IH s1 d1 (bs_client_step idxs h dn c rid cq w) w' St1 C).
    + intros c' Hc'. apply Ann. right; exact Hc'.
    + intros c' Hc'. apply Res. right; exact Hc'.
    + exact Data1.
    + exact Run'.
    + destruct Reach as [pre' [post' [Er Edn]]].
      assert (Stn : index_state idxs (fold_left apply_change pre' s1) dn).
      { rewrite Edn. apply state_after; [exact St1|]. rewrite Er in C. eapply chain_ok_app; exact C. }
      destruct (fetch_ok_at _ _ Stn) as [l Fl]; [rewrite Edn; apply Data1 with post'; exact Er|].
      rewrite (step_char dn c l w Fl).
      * cbn [c fst snd]. destruct (affects_query q (st_get id s) a) eqn:Aff.
        -- exists pre', post'. split; [exact Er|]. rewrite Edn. reflexivity.
        -- destruct Inv as [pre [post [E W]]]. destruct pre as [|c0 pre2].
           ++ exists [], r. split; [reflexivity|]. rewrite W. cbn [index_after_nil].
              change (index_after idxs d []) with d. change (index_after idxs d1 []) with d1.
              unfold d1, c. apply (unaffected_fresh s d id a St Nid).
              ** apply (Data [] ((id, st_get id s, a) :: r)). reflexivity.
              ** specialize (Data1 [] r eq_refl). exact Data1.
              ** exact Aff.
           ++ cbn [app] in E. inversion E as [[E0 E1]]. exists pre2, post. split; [first [reflexivity|exact E1]|].
              rewrite W. rewrite <- E0. unfold d1. rewrite (index_after_cons idxs d c pre2). reflexivity.
      * apply Ann. left; reflexivity.
      * apply Res. left; reflexivity.
Qed.

Lemma handler_coherent_pf : forall (cs : list (change V)) s d w',
  index_state idxs s d -> chain_ok s cs ->
  (forall c, In c cs -> affects_query q (snd (fst c)) (snd c) = true -> memb rid (announced h c) = true) ->
  (forall c, In c cs -> forall r, In r (announced h c) ->
     h_resource h r = true /\ (is_query h = false -> plain_query h r <> None)) ->
  (forall pre post, cs = pre ++ post -> data_ok q (fold_left apply_change pre s) (index_after idxs d pre)) ->
  client_run idxs h rid cq d cs (fresh d) w' ->
  w' = fresh (index_after idxs d cs).
Proof.
  intros cs s d w' St C Ann Res Data Run.
  apply (run_coherent cs s d (fresh d) w'); try assumption.
  exists [], cs. split; reflexivity.
Qed.

End B.
