(* flush_complete: when QueryStore.Flush returns, every task accepted before its
   sentinel has run to completion; taskqueue.Flush alone does not give that. *)
From GoRes Require Import Index.TaskQ.
From Coq Require Import Arith PeanoNat Lia.
Open Scope nat_scope.

Lemma task_eqb_eq : forall a b, task_eqb a b = true <-> a = b.
Proof.
  intros [x|x] [y|y]; cbn; split; intros H; try discriminate; try (apply Nat.eqb_eq in H; congruence);
    inversion H; subst; apply Nat.eqb_refl.
Qed.

Lemma existsb_task : forall t l, existsb (task_eqb t) l = true <-> In t l.
Proof.
  intros t l. rewrite existsb_exists. split.
  - intros [x [Hx E]]. apply task_eqb_eq in E. subst. exact Hx.
  - intros H. exists t. split; [exact H|]. apply task_eqb_eq. reflexivity.
Qed.

Lemma NoDup_snoc : forall {A} (l : list A) x, NoDup l -> ~ In x l -> NoDup (l ++ [x]).
Proof.
  induction l as [|a l IH]; intros x ND N; cbn.
  - constructor; [intros []|constructor].
  - inversion ND as [|? ? Na ND']; subst. constructor.
    + intros H. apply in_app_or in H as [H|[H|[]]]; [exact (Na H)|]. subst. apply N. left; reflexivity.
    + apply IH; [exact ND'|]. intros H. apply N. right; exact H.
Qed.

Lemma NoDup_app_disj : forall {A} (a b : list A) x, NoDup (a ++ b) -> In x a -> In x b -> False.
Proof.
  induction a as [|y a IH]; intros b x ND Ha Hb; [destruct Ha|].
  cbn in ND. inversion ND as [|? ? Ny ND']; subst. destruct Ha as [Ha|Ha].
  - subst. apply Ny. apply in_or_app. right; exact Hb.
  - eapply IH; eassumption.
Qed.

Definition opt_list {A} (o : option A) : list A := match o with Some x => [x] | None => [] end.

Definition tinv (s : tq) : Prop :=
  accepted s = finished s ++ opt_list (running s) ++ pending s /\
  NoDup (accepted s) /\
  (forall f, In f (returned s) -> In (TSentinel f) (finished s)).

Lemma step_tinv : forall s l s', tinv s -> tq_step s l = Some s' -> tinv s'.
Proof.
  intros s l s' [A [ND R]] H. destruct l as [t| | | |f|f]; unfold tq_step in H.
  - destruct (Nat.ltb (length (pending s)) (cap s)); cbn [andb] in H; [|discriminate].
    destruct (existsb (task_eqb t) (accepted s)) eqn:E; cbn [negb] in H; [discriminate|]. inversion H; subst; clear H.
    unfold tinv; cbn. split; [|split; [|exact R]].
    + rewrite A. rewrite <- !app_assoc. reflexivity.
    + apply NoDup_snoc; [exact ND|]. intros Hin. apply existsb_task in Hin. congruence.
  - destruct (working s); [|discriminate]. destruct (running s) eqn:Er; [discriminate|].
    destruct (pending s) as [|t r] eqn:Ep; [discriminate|]. inversion H; subst; clear H.
    unfold tinv; cbn. split; [|split; [exact ND|exact R]]. rewrite A. reflexivity.
  - destruct (running s) as [t|] eqn:Er; [|discriminate]. inversion H; subst; clear H.
    unfold tinv; cbn. split; [|split; [exact ND|]].
    + rewrite A. cbn. rewrite <- app_assoc. reflexivity.
    + intros f Hf. apply in_or_app. left. apply R; exact Hf.
  - destruct (working s); [|discriminate]. destruct (running s) eqn:Er; [discriminate|].
    destruct (pending s) eqn:Ep; [|discriminate]. inversion H; subst; clear H.
    unfold tinv; cbn. split; [|split; [exact ND|exact R]]. rewrite A. reflexivity.
  - destruct (existsb (task_eqb (TSentinel f)) (finished s)) eqn:E; [|discriminate]. inversion H; subst; clear H.
    unfold tinv; cbn. split; [exact A|split; [exact ND|]].
    intros f' [Hf|Hf]; [subst; apply existsb_task; exact E|apply R; exact Hf].
  - destruct (pending s) eqn:Ep; [|discriminate]. inversion H; subst; clear H.
    unfold tinv; cbn. split; [|split; [exact ND|exact R]]. rewrite A. reflexivity.
Qed.

Lemma run_tinv : forall ls s s', tinv s -> tq_run s ls = Some s' -> tinv s'.
Proof.
  induction ls as [|l ls IH]; intros s s' I H; cbn in H.
  - inversion H; subst. exact I.
  - destruct (tq_step s l) as [s1|] eqn:E; [|discriminate]. eapply IH; [|exact H]. eapply step_tinv; eassumption.
Qed.

Lemma init_tinv : forall c, tinv (tq_init c).
Proof. intros c. unfold tinv; cbn. split; [reflexivity|]. split; [constructor|intros f []]. Qed.

Lemma prefix_closed : forall {A} (acc fin rest : list A) i j t u,
  acc = fin ++ rest -> NoDup acc ->
  nth_error acc i = Some t -> nth_error acc j = Some u -> i < j -> In u fin -> In t fin.
Proof.
  intros A acc fin rest i j t u E ND Hi Hj Lij Hu.
  apply In_nth_error in Hu as [j' Hj'].
  assert (Lj' : j' < length fin) by (apply nth_error_Some; congruence).
  assert (Hj'' : nth_error acc j' = Some u) by (rewrite E, nth_error_app1; assumption).
  assert (j' = j).
  { rewrite NoDup_nth_error in ND. apply ND; [|congruence]. rewrite E, app_length. lia. }
  subst j'. assert (Hi' : nth_error fin i = Some t).
  { rewrite E, nth_error_app1 in Hi; [exact Hi|lia]. }
  eapply nth_error_In; exact Hi'.
Qed.

Lemma flush_complete_pf : forall c ls s,
  tq_run (tq_init c) ls = Some s ->
  forall f t, In f (returned s) -> accepted_before s t (TSentinel f) ->
  In t (finished s) /\ ~ In t (pending s) /\ running s <> Some t.
Proof.
  intros c ls s H f t Hf [i [j [Hi [Hj Lij]]]].
  destruct (run_tinv ls _ _ (init_tinv c) H) as [A [ND R]].
  assert (Ht : In t (finished s)) by (eapply prefix_closed; try eassumption; apply R; exact Hf).
  split; [exact Ht|]. rewrite A in ND. split.
  - intros Hp. eapply NoDup_app_disj; [exact ND|exact Ht|]. apply in_or_app. right; exact Hp.
  - intros Hr. eapply NoDup_app_disj; [exact ND|exact Ht|]. apply in_or_app. left. rewrite Hr. left; reflexivity.
Qed.

(* taskqueue.Flush (what QueryStore.Flush called before the fix) can return
   while a task accepted before the call is still running *)
Lemma taskqueue_flush_refuted_pf : exists ls s t f,
  tq_run (tq_init 256) ls = Some s /\ In f (old_returned s) /\ In t (accepted s) /\ running s = Some t
  /\ ~ In t (finished s).
Proof.
  exists [LDo (TIndex 0); LPop; LOldFlushReturn 0].
  eexists. exists (TIndex 0), 0. vm_compute. repeat split; try (left; reflexivity). intros [].
Qed.
