(* query_spec: FetchCollection over a sorted key space = the sorted / filtered /
   windowed scan of the index entries. *)
From GoRes Require Import Index.Spec Index.ProofsOrder Index.ProofsSort.
From Coq Require Import Sorting.Sorted.
Open Scope N_scope.

(* the keys the loop visits: the maximal run of keys with the prefix *)
Fixpoint take_pref (qp : bytes) (l : kdb) : kdb :=
  match l with
  | [] => []
  | k :: l' => if has_prefix qp k then k :: take_pref qp l' else []
  end.

Lemma scan_take_pref : forall qp nl filt l off lim,
  scan qp nl filt l off lim = scan qp nl filt (take_pref qp l) off lim.
Proof.
  induction l as [|k l IH]; intros off lim; [reflexivity|].
  cbn [take_pref]. destruct (has_prefix qp k) eqn:Hp.
  - cbn [scan]. rewrite Hp. cbn [negb]. destruct (last_nul k) as [idx|]; [|reflexivity].
    destruct (idx <? length qp)%nat; [apply IH|].
    destruct (negb (filter_ok filt (firstn (idx - nl) (skipn nl k)))); [apply IH|].
    destruct (0 <? off)%Z; [apply IH|].
    destruct (lim - 1 =? 0)%Z; [reflexivity|]. rewrite IH. reflexivity.
  - cbn [scan]. rewrite Hp. reflexivity.
Qed.

Lemma filter_none : forall {A} (f : A -> bool) l, (forall z, In z l -> f z = false) -> filter f l = [].
Proof.
  induction l as [|x l IH]; intros H; [reflexivity|]. cbn. rewrite (H x (or_introl eq_refl)).
  apply IH. intros z Hz. apply H. right; assumption.
Qed.

(* ---- forward ---- *)
Lemma take_pref_ge : forall qp l,
  StronglySorted bltP l -> Forall (fun y => blt y qp = false) l ->
  take_pref qp l = filter (has_prefix qp) l.
Proof.
  induction l as [|y l IH]; intros S F; [reflexivity|].
  inversion S as [|? ? SS FA]; subst. inversion F as [|? ? Hy F']; subst.
  cbn. destruct (has_prefix qp y) eqn:Hp.
  - f_equal. apply IH; assumption.
  - symmetry. apply filter_none. intros z Hz.
    destruct (has_prefix qp z) eqn:Hz'; [|reflexivity]. exfalso.
    pose proof (ge_noprefix_gt qp y z Hy Hp Hz') as L.
    rewrite Forall_forall in FA. specialize (FA z Hz). unfold bltP in FA.
    rewrite (blt_asym _ _ FA) in L. discriminate.
Qed.

Lemma fwd_iter : forall qp d,
  StronglySorted bltP d -> take_pref qp (drop_lt qp d) = filter (has_prefix qp) d.
Proof.
  induction d as [|x d IH]; intros S; [reflexivity|].
  inversion S as [|? ? SS FA]; subst. cbn [drop_lt]. destruct (blt x qp) eqn:L.
  - cbn [filter]. destruct (has_prefix qp x) eqn:Hp.
    + rewrite (hp_not_lt _ _ Hp) in L. discriminate.
    + apply IH; assumption.
  - apply take_pref_ge; [exact S|].
    constructor; [exact L|]. apply Forall_forall. intros z Hz.
    rewrite Forall_forall in FA. specialize (FA z Hz). unfold bltP in FA.
    destruct (blt z qp) eqn:Lz; [|reflexivity].
    rewrite (blt_trans _ _ _ FA Lz) in L. discriminate.
Qed.

(* ---- reverse ---- *)
Definition bgtP (a b : bytes) : Prop := blt b a = true.

Lemma take_pref_lt_succ : forall qp s l,
  psucc qp = Some s -> StronglySorted bgtP l ->
  Forall (fun y => blt y s = true) l -> Forall (fun y => bytes_ok y = true) l ->
  take_pref qp l = filter (has_prefix qp) l.
Proof.
  intros qp s. induction l as [|y l IH]; intros Hs S F B; [reflexivity|].
  inversion S as [|? ? SS FA]; subst. inversion F as [|? ? Hy F']; subst. inversion B as [|? ? By B']; subst.
  cbn. destruct (has_prefix qp y) eqn:Hp.
  - f_equal. apply IH; assumption.
  - symmetry. apply filter_none. intros z Hz.
    destruct (has_prefix qp z) eqn:Hz'; [|reflexivity]. exfalso.
    assert (Ly : blt y qp = true).
    { destruct (blt y qp) eqn:E; [reflexivity|].
      rewrite (psucc_between qp s y Hs By E Hy) in Hp. discriminate. }
    rewrite Forall_forall in FA. specialize (FA z Hz). unfold bgtP in FA.
    pose proof (blt_trans _ _ _ FA Ly) as Lz. rewrite (hp_not_lt _ _ Hz') in Lz. discriminate.
Qed.

Definition skip_seek (s : bytes) (l : kdb) : kdb :=
  match l with k :: l' => if beq k s then l' else l | [] => [] end.

Lemma rev_iter : forall qp s r,
  psucc qp = Some s -> StronglySorted bgtP r -> Forall (fun y => bytes_ok y = true) r ->
  take_pref qp (skip_seek s (drop_gt s r)) = filter (has_prefix qp) r.
Proof.
  intros qp s. induction r as [|x r IH]; intros Hs S B; [reflexivity|].
  inversion S as [|? ? SS FA]; subst. inversion B as [|? ? Bx B']; subst.
  cbn [drop_gt]. destruct (blt s x) eqn:L.
  - cbn [filter]. destruct (has_prefix qp x) eqn:Hp.
    + pose proof (psucc_gt _ _ _ Hs Hp) as G. rewrite (blt_asym _ _ G) in L. discriminate.
    + apply IH; assumption.
  - assert (Tail : Forall (fun y => blt y x = true) r).
    { apply Forall_forall. intros z Hz. rewrite Forall_forall in FA. apply FA; assumption. }
    cbn [skip_seek]. destruct (beq x s) eqn:E.
    + apply beq_eq in E. subst x. cbn [filter].
      destruct (has_prefix qp s) eqn:Hp.
      * pose proof (psucc_gt _ _ _ Hs Hp) as G. rewrite blt_irrefl in G. discriminate.
      * eapply take_pref_lt_succ; eassumption.
    + apply beq_neq in E.
      assert (Lx : blt x s = true).
      { destruct (blt_total x s) as [T|[T|T]]; [exact T|contradiction|congruence]. }
      eapply take_pref_lt_succ; [exact Hs|exact S| |exact B].
      constructor; [exact Lx|]. eapply Forall_impl; [|exact Tail].
      intros z Hz. cbn in Hz. eapply blt_trans; eassumption.
Qed.

Lemma psucc_some : forall a c b, c <> xff -> exists s, psucc (a ++ c :: b) = Some s.
Proof.
  intros a c b Hc. destruct (psucc (a ++ c :: b)) as [s|] eqn:E; [exists s; reflexivity|].
  apply psucc_none_ff in E. rewrite forallb_app in E. apply andb_true_iff in E as [_ E].
  cbn in E. apply andb_true_iff in E as [E _]. apply N.eqb_eq in E. contradiction.
Qed.

(* ---- the loop body on laid-out entries ---- *)
Section Scan.
Variable name prefix : bytes.
Variable filt : option (bytes -> bool).
Let qp := get_query name prefix.
Let gk (e : entry) : bytes := get_key name (fst e) (snd e).
Let pred (e : entry) : bool := key_matches prefix filt (fst e).

Lemma hp_len_cmp : forall p k t,
  has_prefix p (k ++ t) = true -> (length k <? length p)%nat = negb (has_prefix p k).
Proof.
  induction p as [|c p IH]; intros k t H.
  - destruct k; reflexivity.
  - destruct k as [|d k]; [reflexivity|].
    cbn in H. apply andb_true_iff in H as [E H]. cbn. rewrite E. cbn.
    rewrite <- (IH k t H). reflexivity.
Qed.

Lemma skipn_app_len : forall {A} (a b : list A), skipn (length a) (a ++ b) = b.
Proof. induction a as [|x a IH]; intros; [reflexivity|]. cbn. apply IH. Qed.
Lemma firstn_app_len : forall {A} (a b : list A), firstn (length a) (a ++ b) = a.
Proof. induction a as [|x a IH]; intros; [reflexivity|]. cbn. f_equal. apply IH. Qed.

Lemma gk_hp : forall e : entry, has_prefix qp (gk e) = has_prefix prefix (fst e ++ nul :: snd e).
Proof.
  intros e. unfold qp, gk. rewrite get_query_split, get_key_split. apply hp_app_strip.
Qed.

Lemma gk_last_nul : forall e : entry, nul_free (snd e) = true ->
  last_nul (gk e) = Some (length name + S (length (fst e)))%nat.
Proof.
  intros e H. unfold gk, get_key.
  replace (name ++ colon :: fst e ++ nul :: snd e) with ((name ++ colon :: fst e) ++ nul :: snd e).
  - rewrite last_nul_sep by assumption. rewrite app_length. reflexivity.
  - rewrite <- app_assoc. reflexivity.
Qed.

Lemma gk_key_part : forall e : entry,
  firstn (length name + S (length (fst e)) - S (length name)) (skipn (S (length name)) (gk e)) = fst e.
Proof.
  intros e. unfold gk. rewrite get_key_split.
  replace (S (length name)) with (length (name ++ [colon])) by (rewrite app_length; cbn; lia).
  rewrite skipn_app_len.
  replace (length name + S (length (fst e)) - length (name ++ [colon]))%nat with (length (fst e))
    by (rewrite app_length; cbn; lia).
  apply firstn_app_len.
Qed.

Lemma skipn_two_sep : forall {A} (a : list A) x b y c,
  skipn (S (length a + S (length b))) (a ++ x :: b ++ y :: c) = c.
Proof.
  induction a as [|z a IH]; intros.
  - cbn. induction b as [|w b IHb]; [reflexivity|]. cbn. exact IHb.
  - cbn [length app plus]. change (skipn (S (length a + S (length b))) (a ++ x :: b ++ y :: c) = c). apply IH.
Qed.

Lemma gk_id_part : forall e : entry, skipn (S (length name + S (length (fst e)))) (gk e) = snd e.
Proof. intros e. unfold gk, get_key. apply skipn_two_sep. Qed.

Lemma qp_len : length qp = (length name + S (length prefix))%nat.
Proof. unfold qp, get_query. rewrite app_length. reflexivity. Qed.

Lemma scan_entries : forall E off lim,
  Forall (fun e => nul_free (snd e) = true) E ->
  Forall (fun e => has_prefix qp (gk e) = true) E ->
  (0 < lim)%Z ->
  scan qp (S (length name)) filt (map gk E) off lim =
  FOk (firstn (Z.to_nat lim) (skipn (Z.to_nat off) (map snd (filter pred E)))).
Proof.
  induction E as [|e E IH]; intros off lim NF HP Hl.
  - cbn. rewrite skipn_nil, firstn_nil. reflexivity.
  - inversion NF as [|? ? Ne NF']; subst. inversion HP as [|? ? He HP']; subst.
    cbn [map scan]. rewrite He. cbn [negb]. rewrite (gk_last_nul e Ne).
    rewrite gk_key_part, gk_id_part. rewrite qp_len.
    rewrite gk_hp in He.
    assert (Cmp : (length name + S (length (fst e)) <? length name + S (length prefix))%nat
                  = negb (has_prefix prefix (fst e))).
    { rewrite <- (hp_len_cmp prefix (fst e) _ He).
      destruct (Nat.ltb_spec (length (fst e)) (length prefix));
      destruct (Nat.ltb_spec (length name + S (length (fst e))) (length name + S (length prefix))); try reflexivity; lia. }
    rewrite Cmp. cbn [filter]. unfold pred at 1. unfold key_matches.
    destruct (has_prefix prefix (fst e)) eqn:Hk; cbn [negb andb].
    + destruct (filter_ok filt (fst e)) eqn:Hf; cbn [negb].
      * cbn [map]. destruct (Z.ltb_spec 0 off) as [Lo|Lo].
        -- rewrite IH by assumption.
           replace (Z.to_nat off) with (S (Z.to_nat (off - 1))) by lia. reflexivity.
        -- replace (Z.to_nat off) with O by lia. cbn [skipn].
           replace (Z.to_nat lim) with (S (Z.to_nat (lim - 1))) by lia. cbn [firstn].
           destruct (Z.eqb_spec (lim - 1) 0) as [El|El].
           ++ rewrite El. cbn. reflexivity.
           ++ rewrite IH by (try assumption; lia).
              replace (Z.to_nat off) with O by lia. cbn [skipn ocons]. reflexivity.
      * apply IH; assumption.
    + apply IH; assumption.
Qed.

End Scan.

(* ---- putting it together ---- *)
Lemma exists_list : forall {A B} (g : A -> B) (Q : A -> Prop) (M : list B),
  (forall k, In k M -> exists e, Q e /\ k = g e) -> exists E, M = map g E /\ Forall Q E.
Proof.
  induction M as [|k M IH]; intros H.
  - exists []. split; [reflexivity|constructor].
  - destruct (H k (or_introl eq_refl)) as [e [Qe Ee]].
    destruct IH as [E [EM FE]]; [intros k' Hk'; apply H; right; assumption|].
    exists (e :: E). split; [cbn; congruence|constructor; assumption].
Qed.

Lemma filter_len_le : forall {A} (f : A -> bool) l, (length (filter f l) <= length l)%nat.
Proof. induction l as [|x l IH]; [apply le_n|]. cbn. destruct (f x); cbn; lia. Qed.

Lemma filter_rev' : forall {A} (f : A -> bool) l, filter f (rev l) = rev (filter f l).
Proof.
  induction l as [|x l IH]; [reflexivity|]. cbn. rewrite filter_app, IH. cbn.
  destruct (f x); cbn; [reflexivity|]. rewrite app_nil_r. reflexivity.
Qed.

Lemma SS_map_reflect : forall n E,
  Forall (fun e => nul_free (fst e) = true) E ->
  StronglySorted bltP (map (fun e => get_key n (fst e) (snd e)) E) -> StronglySorted pltP E.
Proof.
  induction E as [|e E IH]; intros NF S; [constructor|].
  inversion NF as [|? ? Ne NF']; subst. cbn in S. inversion S as [|? ? SS FA]; subst.
  constructor; [apply IH; assumption|].
  apply Forall_forall. intros z Hz. unfold pltP. apply (get_key_reflect n); [assumption|].
  rewrite Forall_forall in FA. apply FA. apply (in_map (fun e => get_key n (fst e) (snd e))). assumption.
Qed.

Lemma entries_nf_forall : forall es, entries_nul_free es = true ->
  forall e, In e es -> nul_free (fst e) = true /\ nul_free (snd e) = true.
Proof.
  intros es H e He. unfold entries_nul_free in H. rewrite forallb_forall in H.
  specialize (H e He). unfold entry_nul_free in H. apply andb_true_iff in H. exact H.
Qed.

Section Query.
Context {V : Type}.

Lemma query_spec_pf : forall (d : kdb) (q : iquery V) (entries : list entry),
  sortedb d = true ->
  index_slice (iname (qidx q)) d entries ->
  NoDup entries ->
  entries_nul_free entries = true ->
  (qrev q = true -> db_bytes_ok d = true) ->
  ((qlimit q < 0)%Z -> (Z.of_nat (length d) < max_int)%Z) ->
  fetch_collection d q = FOk (spec_query q entries).
Proof.
  intros d q entries Hsorted [Sl1 Sl2] ND NF Hbytes Hlen.
  unfold fetch_collection, spec_query, spec_query_on, window.
  destruct (Z.eqb_spec (qlimit q) 0) as [L0|L0]; [reflexivity|].
  set (name := iname (qidx q)). set (prefix := qprefix q). set (filt := qfilter q).
  set (qp := get_query name prefix).
  set (gk := fun e : entry => get_key name (fst e) (snd e)).
  set (pred := fun e : entry => key_matches prefix filt (fst e)).
  set (lim := if (qlimit q <? 0)%Z then max_int else qlimit q).
  apply sortedb_SS in Hsorted.
  (* the keys with the query prefix, decoded *)
  set (M := filter (has_prefix qp) d).
  assert (HM : forall k, In k M -> exists e, (In e entries /\ has_prefix qp (gk e) = true) /\ k = gk e).
  { intros k Hk. apply filter_In in Hk as [Hk Hp].
    destruct (Sl1 k Hk) as [e [He Ek]].
    - unfold qp in Hp. rewrite get_query_split in Hp. eapply hp_app_l; exact Hp.
    - exists e. subst k. repeat split; assumption. }
  destruct (exists_list gk _ M HM) as [E [EM FE]].
  assert (FEin : forall e, In e E -> In e entries /\ has_prefix qp (gk e) = true).
  { rewrite Forall_forall in FE. exact FE. }
  assert (NFE : forall e, In e E -> nul_free (fst e) = true /\ nul_free (snd e) = true).
  { intros e He. apply (entries_nf_forall entries NF). apply FEin; assumption. }
  (* the matching decoded entries are the sorted matching entries *)
  assert (Core : filter pred E = sort_by_key_id (filter pred entries)).
  { apply sorted_is_sort.
    - apply NoDup_filter; assumption.
    - apply SS_filter_gen. apply (SS_map_reflect name).
      + apply Forall_forall. intros e He. apply NFE; assumption.
      + change (StronglySorted bltP (map gk E)). rewrite <- EM. apply SS_filter_gen. exact Hsorted.
    - intros x. rewrite !filter_In. split.
      + intros [Hx Px]. split; [apply FEin; assumption|assumption].
      + intros [Hx Px]. split; [|assumption].
        assert (Hg : In (gk x) M).
        { apply filter_In. split; [apply Sl2; assumption|].
          unfold qp, gk. rewrite get_query_split, get_key_split, hp_app_strip.
          unfold pred, key_matches in Px. apply andb_true_iff in Px as [Px _].
          apply hp_exists in Px as [t Et]. apply hp_exists. exists (t ++ nul :: snd x).
          rewrite Et at 1. rewrite <- app_assoc. reflexivity. }
        rewrite EM in Hg. apply in_map_iff in Hg as [e' [Ee' He']].
        unfold gk in Ee'. apply get_key_inj in Ee' as [E1 E2].
        * destruct e' as [a b], x as [a' b']. cbn in *. subst. assumption.
        * apply NFE; assumption.
        * apply (entries_nf_forall entries NF); assumption. }
  (* the iterator visits maybe_rev M *)
  assert (Iter : exists l, it_start (qrev q) qp d = Some l /\ take_pref qp l = maybe_rev (qrev q) M).
  { unfold it_start. destruct (qrev q) eqn:R; cbn [maybe_rev].
    - destruct (psucc_some name colon prefix) as [s Hs]; [unfold colon, xff; lia|].
      fold (get_query name prefix) in Hs. fold qp in Hs. rewrite Hs.
      eexists. split; [reflexivity|].
      change (match drop_gt s (rev d) with | [] => [] | k :: l' => if beq k s then l' else drop_gt s (rev d) end)
        with (skip_seek s (drop_gt s (rev d))).
      unfold M. rewrite <- filter_rev'. apply rev_iter; [exact Hs|apply (SS_rev bltP); exact Hsorted|].
      specialize (Hbytes eq_refl). unfold db_bytes_ok in Hbytes. rewrite forallb_forall in Hbytes.
      apply Forall_forall. intros y Hy. apply Hbytes. apply in_rev. assumption.
    - eexists. split; [reflexivity|]. apply fwd_iter. exact Hsorted. }
  destruct Iter as [l [Hl Tl]]. rewrite Hl.
  rewrite scan_take_pref, Tl, EM.
  assert (MR : maybe_rev (qrev q) (map gk E) = map gk (maybe_rev (qrev q) E)).
  { destruct (qrev q); cbn; [rewrite map_rev|]; reflexivity. }
  rewrite MR.
  assert (Hlim : (0 < lim)%Z).
  { unfold lim. destruct (Z.ltb_spec (qlimit q) 0); [unfold max_int|]; lia. }
  unfold qp, gk. rewrite (scan_entries name prefix filt (maybe_rev (qrev q) E) (qoffset q) lim).
  - fold pred.
    assert (FR : filter pred (maybe_rev (qrev q) E) = maybe_rev (qrev q) (filter pred E)).
    { destruct (qrev q); cbn; [apply filter_rev'|reflexivity]. }
    rewrite FR, Core. f_equal.
    unfold lim. destruct (Z.ltb_spec (qlimit q) 0) as [Ln|Ln]; [|reflexivity].
    apply firstn_all2.
    rewrite skipn_length, map_length.
    assert (H : length (maybe_rev (qrev q) (sort_by_key_id (filter pred entries))) = length (filter pred E)).
    { rewrite <- Core. destruct (qrev q); cbn; [apply rev_length|reflexivity]. }
    assert (H1 : (length (filter pred E) <= length E)%nat) by apply filter_len_le.
    assert (H2 : length E = length M) by (rewrite EM, map_length; reflexivity).
    assert (H3 : (length M <= length d)%nat) by apply filter_len_le.
    match goal with |- (length ?X - _ <= _)%nat => assert (HX : (length X <= length d)%nat) end.
    { eapply Nat.le_trans; [|exact H3]. rewrite <- H2. eapply Nat.le_trans; [|exact H1].
      apply Nat.eq_le_incl. exact H. }
    specialize (Hlen Ln).
    match type of HX with (length ?X <= _)%nat => assert (HZ : (Z.of_nat (length X) < max_int)%Z) end.
    { eapply Z.le_lt_trans; [apply Nat2Z.inj_le; exact HX|exact Hlen]. }
    eapply Nat.le_trans; [apply Nat.le_sub_l|].
    apply Nat2Z.inj_le. rewrite Z2Nat.id by (unfold max_int; lia).
    apply Z.lt_le_incl. exact HZ.
  - apply Forall_forall. intros e He. apply NFE.
    destruct (qrev q); cbn in He; [apply in_rev in He|]; assumption.
  - apply Forall_forall. intros e He. apply FEin.
    destruct (qrev q); cbn in He; [apply in_rev in He|]; assumption.
  - exact Hlim.
Qed.

End Query.

(* a NUL byte inside an index key breaks the (key, id) order of the layout:
   ("a", "2") < ("a\0", "1") as pairs, but "a\0\0" ++ "1" < "a\0" ++ "2" as laid-out keys *)
Lemma nul_key_order_refuted_pf :
  exists (ix : index bytes) (ms : list (mutation bytes)) (q : iquery bytes),
    qidx q = ix /\ muts_ids_nul_free ms = true /\
    let '(st, d, _) := run_history [ix] 0 ms in
    entries_nul_free (entries_of ix st) = false /\
    forallb (fun e => nul_free (snd e)) (entries_of ix st) = true /\
    sortedb d = true /\
    fetch_collection d q <> FOk (spec_query q (entries_of ix st)).
Proof.
  exists (Index [110] (fun v => Some v)), [MCreate [50] [97]; MCreate [49] [97; 0]].
  exists (IQ (Index [110] (fun v => Some v)) [] None 0%Z (-1)%Z false).
  vm_compute. repeat split; try reflexivity. discriminate.
Qed.
