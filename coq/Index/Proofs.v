(* The lemmas Props/C13.v and Props/C14.v state, in their final form. *)
From GoRes Require Export Index.Spec Index.TaskQ Index.QHandler.
From GoRes Require Import Index.ProofsOrder Index.ProofsSort Index.ProofsQuery Index.ProofsInv
     Index.ProofsChange Index.ProofsQHandler Index.ProofsQStep Index.ProofsTaskQ.
Open Scope N_scope.

Section Final.
Context {V : Type}.

Lemma index_invariant_pf : forall (idxs : list (index V)) ncb ms st d es,
  names_ok idxs -> muts_ids_nul_free ms = true ->
  run_history idxs ncb ms = (st, d, es) -> index_state idxs st d.
Proof. intros idxs ncb ms st d es [CF ND]. apply ProofsInv.index_invariant_pf; assumption. Qed.

Lemma index_invariant_chains_pf : forall (idxs : list (index V)) ncb cs,
  names_ok idxs -> chain_ok [] cs ->
  index_state idxs (fold_left apply_change cs []) (fst (run_changes idxs ncb [] cs)).
Proof.
  intros idxs ncb cs [CF ND] C. apply run_state; try assumption. apply init_state.
Qed.

Lemma index_state_step_pf : forall (idxs : list (index V)) s d id a,
  names_ok idxs -> index_state idxs s d -> nul_free id = true ->
  index_state idxs (st_put id a s) (fst (update_idxs idxs id (st_get id s) a d false)).
Proof. intros idxs s d id a [CF ND]. apply state_step_pf; assumption. Qed.

Lemma index_slices_pf : forall (idxs : list (index V)) s d ix,
  names_ok idxs -> index_state idxs s d -> In ix idxs ->
  index_slice (iname ix) d (entries_of ix s) /\ NoDup (entries_of ix s) /\
  (forall e, In e (entries_of ix s) -> nul_free (snd e) = true).
Proof. intros idxs s d ix [CF ND]. apply state_slice_pf; assumption. Qed.

Lemma query_spec_pf : forall (d : kdb) (q : iquery V) (entries : list entry),
  sortedb d = true -> index_slice (iname (qidx q)) d entries -> NoDup entries ->
  entries_nul_free entries = true ->
  (qrev q = true -> db_bytes_ok d = true) ->
  ((qlimit q < 0)%Z -> (Z.of_nat (length d) < max_int)%Z) ->
  fetch_collection d q = FOk (spec_query q entries).
Proof. exact ProofsQuery.query_spec_pf. Qed.

Lemma query_on_state_pf : forall (idxs : list (index V)) s d (q : iquery V),
  names_ok idxs -> index_state idxs s d -> In (qidx q) idxs ->
  entries_nul_free (entries_of (qidx q) s) = true ->
  (qrev q = true -> db_bytes_ok d = true) ->
  ((qlimit q < 0)%Z -> (Z.of_nat (length d) < max_int)%Z) ->
  fetch_collection d q = FOk (spec_query q (entries_of (qidx q) s)).
Proof.
  intros idxs s d q Hn St Hin NF Hb Hl.
  destruct (index_slices_pf idxs s d (qidx q) Hn St Hin) as [Sl [ND _]].
  destruct St as [_ [_ [Sd _]]]. apply query_spec_pf; assumption.
Qed.

(* the database also holds keys that are no index entries (the raw value keys,
   "$init" markers): the iterator walks over them, the result is the same as
   long as none of them starts with "<index name>:" *)
Lemma query_with_foreign_keys_pf : forall (idxs : list (index V)) s d d' (q : iquery V),
  names_ok idxs -> index_state idxs s d -> In (qidx q) idxs ->
  sortedb d' = true ->
  (forall k, In k d -> In k d') ->
  (forall k, In k d' -> ~ In k d -> has_prefix (iname (qidx q) ++ [colon]) k = false) ->
  entries_nul_free (entries_of (qidx q) s) = true ->
  (qrev q = true -> db_bytes_ok d' = true) ->
  ((qlimit q < 0)%Z -> (Z.of_nat (length d') < max_int)%Z) ->
  fetch_collection d' q = FOk (spec_query q (entries_of (qidx q) s)).
Proof.
  intros idxs s d d' q Hn St Hin Sd' Sub Foreign NF Hb Hl.
  destruct (index_slices_pf idxs s d (qidx q) Hn St Hin) as [[Sl1 Sl2] [ND _]].
  apply query_spec_pf; try assumption. split.
  - intros k Hk Hp. destruct (in_dec (list_eq_dec N.eq_dec) k d) as [Hd|Hd].
    + apply Sl1; assumption.
    + rewrite (Foreign k Hk Hd) in Hp. discriminate.
  - intros e He. apply Sub. apply Sl2. exact He.
Qed.

Lemma query_after_history_pf : forall (idxs : list (index V)) ncb ms st d es (q : iquery V),
  names_ok idxs -> muts_ids_nul_free ms = true -> run_history idxs ncb ms = (st, d, es) ->
  In (qidx q) idxs ->
  entries_nul_free (entries_of (qidx q) st) = true ->
  (qrev q = true -> db_bytes_ok d = true) ->
  ((qlimit q < 0)%Z -> (Z.of_nat (length d) < max_int)%Z) ->
  fetch_collection d q = FOk (spec_query q (entries_of (qidx q) st)).
Proof.
  intros idxs ncb ms st d es q Hn Hids Hrun. apply query_on_state_pf; [exact Hn|].
  eapply index_invariant_pf; eassumption.
Qed.

(* ---- C14 ---- *)
Lemma callbacks_exact_pf : forall (idxs : list (index V)) ncb cs d,
  snd (run_changes idxs ncb d cs) = expected_effects idxs ncb d cs.
Proof. exact ProofsChange.callbacks_exact_pf. Qed.

Lemma callbacks_once_pf : forall (idxs : list (index V)) ncb cs d j,
  cb_log j (snd (run_changes idxs ncb d cs)) =
  if (j <? ncb)%nat then filter (key_changed idxs) cs else [].
Proof. exact ProofsChange.callbacks_once_pf. Qed.

Lemma history_callbacks_pf : forall (idxs : list (index V)) ncb ms st d es j,
  run_history idxs ncb ms = (st, d, es) ->
  es = expected_effects idxs ncb [] (changes_of [] ms) /\
  cb_log j es = if (j <? ncb)%nat then filter (key_changed idxs) (changes_of [] ms) else [].
Proof.
  intros idxs ncb ms st d es j H. unfold run_history in H.
  pose proof (ProofsChange.callbacks_exact_pf idxs ncb (changes_of [] ms) []) as E.
  pose proof (ProofsChange.callbacks_once_pf idxs ncb (changes_of [] ms) [] j) as O.
  destruct (run_changes idxs ncb [] (changes_of [] ms)) as [d' es']. inversion H; subst.
  split; assumption.
Qed.

Lemma callback_after_index_pf : forall (idxs : list (index V)) ncb,
  names_ok idxs ->
  forall cs s d j id b a dcall,
  index_state idxs s d -> chain_ok s cs ->
  In (ECallback j id b a dcall) (snd (run_changes idxs ncb d cs)) ->
  exists pre post, cs = pre ++ (id, b, a) :: post /\
    dcall = index_after idxs d (pre ++ [(id, b, a)]) /\
    index_state idxs (fold_left apply_change (pre ++ [(id, b, a)]) s) dcall.
Proof. exact ProofsChange.callback_after_index_pf. Qed.

Lemma mutations_chain_pf : forall (ms : list (mutation V)) s,
  muts_ids_nul_free ms = true -> chain_ok s (changes_of s ms).
Proof. intros ms s H. apply changes_chain. exact H. Qed.

Lemma affects_sound_pf : forall (idxs : list (index V)) (q : iquery V) s d id a,
  names_ok idxs -> In (qidx q) idxs -> index_state idxs s d -> nul_free id = true ->
  let b := st_get id s in
  let s' := st_put id a s in
  let d' := fst (update_idxs idxs id b a d false) in
  entries_nul_free (entries_of (qidx q) s) = true ->
  entries_nul_free (entries_of (qidx q) s') = true ->
  (qrev q = true -> db_bytes_ok d = true /\ db_bytes_ok d' = true) ->
  ((qlimit q < 0)%Z -> (Z.of_nat (length d) < max_int)%Z /\ (Z.of_nat (length d') < max_int)%Z) ->
  fetch_collection d q <> fetch_collection d' q -> affects_query q b a = true.
Proof. exact ProofsChange.affects_sound_pf. Qed.

Lemma affects_precise_pf : forall (q : iquery V) b a,
  okey_matches (qprefix q) (qfilter q) (opt_key (qidx q) b) = false ->
  okey_matches (qprefix q) (qfilter q) (opt_key (qidx q) a) = false ->
  affects_query q b a = false.
Proof. exact ProofsChange.affects_precise_pf. Qed.

(* handler layer on badgerstore: eventual coherence over a whole change sequence *)
Lemma handler_coherent_pf : forall (idxs : list (index V)) (h : qhandler (change V) (iquery V))
    (rid cq : bytes) (q : iquery V) (cs : list (change V)) s d w',
  names_ok idxs -> sub_query h rid cq = Some q -> In (qidx q) idxs ->
  index_state idxs s d -> chain_ok s cs ->
  (forall c, In c cs -> affects_query q (snd (fst c)) (snd c) = true -> memb rid (announced h c) = true) ->
  (forall c, In c cs -> forall r, In r (announced h c) ->
     h_resource h r = true /\ (is_query h = false -> plain_query h r <> None)) ->
  (forall pre post, cs = pre ++ post -> data_ok q (fold_left apply_change pre s) (index_after idxs d pre)) ->
  client_run idxs h rid cq d cs (fresh_get h d rid cq) w' ->
  w' = fresh_get h (index_after idxs d cs) rid cq.
Proof.
  intros idxs h rid cq q cs s d w' Hn Hq Hin. apply (ProofsQHandler.handler_coherent_pf idxs h rid cq q Hn Hq Hin).
Qed.

End Final.

(* any QueryStore, any of the transformers: one conversation served right after the change *)
Lemma handler_step_coherent_pf : forall {St C Q} (qs : qstore St C Q) (h : qhandler C Q) (rid cq : bytes) (q : Q),
  sub_query h rid cq = Some q ->
  forall s s' c l l' evs reset,
  qs_query qs s q = Some l -> qs_query qs s' q = Some l' ->
  qs_events qs c q = Some (evs, reset) ->
  (reset = false -> raw_apply evs l = Some l' /\ (forall f, h_trans h = TrModel f -> raw_nodup evs l)) ->
  (evs <> [] -> type_fits h) ->
  snd (handle_change qs h c) = HOk ->
  NoDup (announced h c) ->
  ((reset = true \/ evs <> []) -> In rid (announced h c)) ->
  view_equiv (client_step qs h s' c rid cq (view_of_get (get_resource qs h s rid cq)))
             (view_of_get (get_resource qs h s' rid cq)).
Proof. intros St C Q qs h rid cq q Hq. apply (ProofsQStep.handler_step_coherent_pf qs h rid cq q Hq). Qed.



Definition affects_precise_nilkey_refuted_pf := ProofsChange.affects_precise_nilkey_refuted_pf.
Definition nul_key_order_refuted_pf := ProofsQuery.nul_key_order_refuted_pf.
Definition flush_complete_pf := ProofsTaskQ.flush_complete_pf.
Definition taskqueue_flush_refuted_pf := ProofsTaskQ.taskqueue_flush_refuted_pf.
