(* handler_coherent (partial): after a change was handled, a client of a
   QueryHandler resource holds what a fresh get returns. *)
From GoRes Require Import Index.Handler Index.ProofsOrder Index.ProofsSort Index.ProofsQuery
     Index.ProofsInv Index.ProofsChange.
Open Scope N_scope.

Section H.
Context {V : Type}.

Lemma reset_mem : forall (h : hconfig V) (c : change V) rid q rids,
  (forall r, In r rids -> h_rh h r [] <> None) ->
  h_rh h rid [] = Some q -> affects_query q (snd (fst c)) (snd c) = true ->
  mem rid rids = true -> mem rid (reset_rids h c rids) = true.
Proof.
  intros h c rid q. induction rids as [|x r IH]; intros NE Hq Aff M; [discriminate|].
  unfold mem in *. cbn [existsb] in M. cbn [reset_rids].
  destruct (h_rh h x []) as [qx|] eqn:Ex; [|exfalso; apply (NE x); [left; reflexivity|exact Ex]].
  rewrite existsb_app. destruct (beq rid x) eqn:E.
  - apply beq_eq in E. subst x. rewrite Hq in Ex. inversion Ex; subst qx. rewrite Aff.
    cbn. rewrite beq_refl. reflexivity.
  - cbn [orb] in M. apply orb_true_iff. right. apply IH; [|exact Hq|exact Aff|exact M].
    intros r' Hr'. apply NE. right; exact Hr'.
Qed.

Lemma handler_coherent_partial_pf : forall (idxs : list (index V)) (h : hconfig V) s d id a rid cq q,
  names_ok idxs -> index_state idxs s d -> nul_free id = true ->
  let b := st_get id s in
  let c := (id, b, a) in
  let s' := st_put id a s in
  let d' := fst (update_idxs idxs id b a d false) in
  h_rh h rid cq = Some q -> In (qidx q) idxs ->
  (h_isquery h = false -> cq = []) ->
  (affects_query q b a = true -> mem rid (announced h c) = true) ->
  (h_isquery h = false -> forall r, In r (announced h c) -> h_rh h r [] <> None) ->
  entries_nul_free (entries_of (qidx q) s) = true ->
  entries_nul_free (entries_of (qidx q) s') = true ->
  (qrev q = true -> db_bytes_ok d = true /\ db_bytes_ok d' = true) ->
  ((qlimit q < 0)%Z -> (Z.of_nat (length d) < max_int)%Z /\ (Z.of_nat (length d') < max_int)%Z) ->
  client_after idxs h d' c rid cq (fetch_collection d q) = fetch_collection d' q.
Proof.
  intros idxs h s d id a rid cq q Hn St Nid b c s' d' Hq Hin Hcq Hann Hne NF NF' Hb Hl.
  assert (Same : affects_query q b a = false -> fetch_collection d q = fetch_collection d' q).
  { intros Aff. apply (affects_unchanged_pf idxs q s d id a); assumption. }
  unfold client_after. destruct (key_changed idxs c) eqn:KC; cbn [negb].
  - destruct (h_isquery h) eqn:IsQ.
    + destruct (mem rid (announced h c)) eqn:M.
      * unfold query_response. rewrite Hq. cbn [c fst snd].
        destruct (affects_query q b a) eqn:Aff; [reflexivity|apply Same; reflexivity].
      * apply Same. destruct (affects_query q b a) eqn:Aff; [|reflexivity]. exfalso. pose proof (Hann eq_refl) as M'. congruence.
    + specialize (Hcq eq_refl). subst cq.
      destruct (mem rid (reset_rids h c (announced h c))) eqn:M.
      * rewrite Hq. reflexivity.
      * apply Same. destruct (affects_query q b a) eqn:Aff; [|reflexivity].
        exfalso. assert (M' : mem rid (reset_rids h c (announced h c)) = true).
        { apply (reset_mem h c rid q (announced h c)); [apply Hne; reflexivity|exact Hq|exact Aff|apply Hann; reflexivity]. }
        congruence.
  - unfold key_changed, c in KC.
    unfold d'. rewrite (unchanged_keys_same_db idxs id b a d false KC). reflexivity.
Qed.

End H.
