#!/bin/sh
# Build the framework offline from files on disk: full Coq project (.vo), harness compile check.
set -e
cd "$(dirname "$0")"
export GOFLAGS=-mod=mod GOPROXY=off GOSUMDB=off GOTOOLCHAIN=local
mkdir -p .work evidence replays
( cd coq && find . -name '*.v' ! -name 'cases_*' | sed 's|^\./||' | sort > .files && { echo "-Q . GoRes"; cat .files; } > _CoqProject && rm -f .files && coq_makefile -f _CoqProject -o Makefile >/dev/null && timeout 3000 make -k -j16 COQC="timeout 900 coqc" >.work_build.log 2>&1 || { tail -50 .work_build.log; exit 1; } )
cp /repo/go.sum harness/go.sum
( cd harness && go build -tags verif ./... )
echo setup ok
